#![feature(rustc_private)]
// engine/mirfacts: rustc_private driver that dumps JSON-lines MIR facts per workspace crate.
// Used as RUSTC_WORKSPACE_WRAPPER under `cargo +nightly check`; nothing is executed or code-generated.
extern crate rustc_abi;
extern crate rustc_driver;
extern crate rustc_hir;
extern crate rustc_interface;
extern crate rustc_middle;
extern crate rustc_span;

use rustc_driver::Compilation;
use rustc_hir::def::DefKind;
use rustc_hir::def_id::DefId;
use rustc_middle::mir::{
	AggregateKind, AssertKind, BasicBlock, Body, Const as MirConst, Operand, Place, ProjectionElem,
	Rvalue, StatementKind, TerminatorKind,
};
use rustc_middle::ty::{self, Instance, Ty, TyCtxt, TypingEnv};
use rustc_span::Span;
use std::collections::{HashSet, VecDeque};
use std::fmt::Write as _;

fn esc(s: &str) -> String {
	let mut o = String::with_capacity(s.len() + 2);
	o.push('"');
	for c in s.chars() {
		match c {
			'"' => o.push_str("\\\""),
			'\\' => o.push_str("\\\\"),
			'\n' => o.push_str("\\n"),
			'\t' => o.push_str("\\t"),
			'\r' => o.push_str("\\r"),
			c if (c as u32) < 0x20 => {
				let _ = write!(o, "\\u{:04x}", c as u32);
			}
			c => o.push(c),
		}
	}
	o.push('"');
	o
}

fn krate_of<'tcx>(tcx: TyCtxt<'tcx>, did: DefId) -> String {
	tcx.crate_name(did.krate).to_string()
}

fn path_of<'tcx>(tcx: TyCtxt<'tcx>, did: DefId) -> String {
	// def_path_str omits the crate name for local items: always prefix it.
	// printed under with_no_visible_paths + with_resolve_crate_name (see main callback):
	// always the defining crate's name followed by the definition path, identical in every session.
	tcx.def_path_str(did)
}

fn stable_of<'tcx>(tcx: TyCtxt<'tcx>, did: DefId) -> String {
	format!("{}{}", krate_of(tcx, did), tcx.def_path(did).to_string_no_crate_verbose())
}

fn span_json<'tcx>(tcx: TyCtxt<'tcx>, sp: Span) -> String {
	let sm = tcx.sess.source_map();
	// use the outermost call site so that macro expansions map to the user's line
	let root = sp.source_callsite();
	let lo = sm.lookup_char_pos(root.lo());
	let hi = sm.lookup_char_pos(root.hi());
	let file = format!("{}", lo.file.name.prefer_local_unconditionally());
	let mut macros = Vec::new();
	for ex in sp.macro_backtrace() {
		if let rustc_span::ExpnKind::Macro(_, name) = ex.kind {
			macros.push(name.to_string());
		}
	}
	let ms: Vec<String> = macros.iter().map(|m| esc(m)).collect();
	format!(
		"{{\"file\":{},\"lo\":{},\"hi\":{},\"exp\":{},\"macros\":[{}]}}",
		esc(&file),
		lo.line,
		hi.line,
		sp.from_expansion(),
		ms.join(",")
	)
}

fn ty_json<'tcx>(tcx: TyCtxt<'tcx>, t: Ty<'tcx>) -> String {
	let s = format!("{}", t);
	let adt = match t.peel_refs().kind() {
		ty::Adt(def, _) => Some(path_of(tcx, def.did())),
		_ => None,
	};
	match adt {
		Some(a) => format!("{{\"s\":{},\"adt\":{}}}", esc(&s), esc(&a)),
		None => format!("{{\"s\":{}}}", esc(&s)),
	}
}

fn place_json<'tcx>(tcx: TyCtxt<'tcx>, body: &Body<'tcx>, p: &Place<'tcx>) -> String {
	let mut projs = Vec::new();
	for (i, elem) in p.projection.iter().enumerate() {
		let base = Place::ty_from(p.local, &p.projection[..i], &body.local_decls, tcx);
		match elem {
			ProjectionElem::Deref => projs.push("\"*\"".to_string()),
			ProjectionElem::Field(f, _) => {
				let mut name = format!("{}", f.index());
				let mut owner = String::new();
				if let ty::Adt(def, _) = base.ty.kind() {
					let vidx = base.variant_index.unwrap_or(rustc_abi::FIRST_VARIANT);
					if def.is_enum() || def.is_struct() || def.is_union() {
						if let Some(v) = def.variants().get(vidx) {
							if let Some(fd) = v.fields.get(f) {
								name = fd.name.to_string();
							}
							owner = path_of(tcx, def.did());
							if def.is_enum() {
								owner = format!("{}::{}", owner, v.name);
							}
						}
					}
				}
				projs.push(format!("{{\"f\":{},\"of\":{}}}", esc(&name), esc(&owner)));
			}
			ProjectionElem::Downcast(name, v) => {
				let n = name.map(|s| s.to_string()).unwrap_or_else(|| format!("{}", v.index()));
				projs.push(format!("{{\"dc\":{}}}", esc(&n)));
			}
			ProjectionElem::Index(l) => projs.push(format!("{{\"idx\":{}}}", l.index())),
			ProjectionElem::ConstantIndex { offset, from_end, .. } => {
				projs.push(format!("{{\"cidx\":{},\"end\":{}}}", offset, from_end))
			}
			ProjectionElem::Subslice { .. } => projs.push("\"subslice\"".to_string()),
			_ => projs.push("\"other\"".to_string()),
		}
	}
	format!("{{\"l\":{},\"p\":[{}]}}", p.local.index(), projs.join(","))
}

fn const_json<'tcx>(tcx: TyCtxt<'tcx>, env: TypingEnv<'tcx>, c: &MirConst<'tcx>) -> String {
	let t = c.ty();
	let mut out = format!("{{\"c\":1,\"ty\":{}", esc(&format!("{}", t)));
	match t.kind() {
		ty::FnDef(did, _) => {
			let _ = write!(out, ",\"fn\":{}", esc(&path_of(tcx, *did)));
		}
		ty::Closure(did, _) => {
			let _ = write!(out, ",\"closure\":{}", esc(&path_of(tcx, *did)));
		}
		ty::Bool | ty::Int(_) | ty::Uint(_) | ty::Char => {
			if let Some(si) = c.try_eval_scalar_int(tcx, env) {
				let sz = si.size();
				let bits = si.to_bits(sz);
				let v: String = match t.kind() {
					ty::Int(_) => format!("{}", sz.sign_extend(bits) as i128),
					_ => format!("{}", bits),
				};
				let _ = write!(out, ",\"v\":{}", esc(&v));
			}
		}
		_ => {}
	}
	if let MirConst::Unevaluated(u, _) = c {
		let _ = write!(out, ",\"item\":{}", esc(&path_of(tcx, u.def)));
	}
	out.push('}');
	out
}

fn operand_json<'tcx>(
	tcx: TyCtxt<'tcx>,
	env: TypingEnv<'tcx>,
	body: &Body<'tcx>,
	o: &Operand<'tcx>,
) -> String {
	match o {
		Operand::Copy(p) => format!("{{\"k\":\"copy\",\"pl\":{}}}", place_json(tcx, body, p)),
		Operand::Move(p) => format!("{{\"k\":\"move\",\"pl\":{}}}", place_json(tcx, body, p)),
		Operand::Constant(c) => format!("{{\"k\":\"const\",\"v\":{}}}", const_json(tcx, env, &c.const_)),
		#[allow(unreachable_patterns)]
		_ => "{\"k\":\"other\"}".to_string(),
	}
}

fn rvalue_json<'tcx>(
	tcx: TyCtxt<'tcx>,
	env: TypingEnv<'tcx>,
	body: &Body<'tcx>,
	rv: &Rvalue<'tcx>,
) -> String {
	match rv {
		Rvalue::Use(o, ..) => format!("{{\"r\":\"use\",\"a\":{}}}", operand_json(tcx, env, body, o)),
		Rvalue::Ref(_, bk, p) => format!(
			"{{\"r\":\"ref\",\"mut\":{},\"pl\":{}}}",
			matches!(bk, rustc_middle::mir::BorrowKind::Mut { .. }),
			place_json(tcx, body, p)
		),
		Rvalue::RawPtr(_, p) => format!("{{\"r\":\"rawptr\",\"pl\":{}}}", place_json(tcx, body, p)),
		Rvalue::CopyForDeref(p) => {
			format!("{{\"r\":\"use\",\"a\":{{\"k\":\"copy\",\"pl\":{}}}}}", place_json(tcx, body, p))
		}
		Rvalue::BinaryOp(op, ab) => format!(
			"{{\"r\":\"bin\",\"op\":{},\"a\":{},\"b\":{}}}",
			esc(&format!("{:?}", op)),
			operand_json(tcx, env, body, &ab.0),
			operand_json(tcx, env, body, &ab.1)
		),
		Rvalue::UnaryOp(op, a) => format!(
			"{{\"r\":\"un\",\"op\":{},\"a\":{}}}",
			esc(&format!("{:?}", op)),
			operand_json(tcx, env, body, a)
		),
		Rvalue::Cast(kind, o, t) => format!(
			"{{\"r\":\"cast\",\"kind\":{},\"a\":{},\"to\":{}}}",
			esc(&format!("{:?}", kind)),
			operand_json(tcx, env, body, o),
			esc(&format!("{}", t))
		),
		Rvalue::Discriminant(p) => format!("{{\"r\":\"discr\",\"pl\":{}}}", place_json(tcx, body, p)),
		Rvalue::Aggregate(kind, ops) => {
			let opsj: Vec<String> = ops.iter().map(|o| operand_json(tcx, env, body, o)).collect();
			let k = match &**kind {
				AggregateKind::Adt(did, vidx, _, _, _) => {
					let def = tcx.adt_def(*did);
					let vname = def.variant(*vidx).name.to_string();
					let fields: Vec<String> =
						def.variant(*vidx).fields.iter().map(|f| esc(&f.name.to_string())).collect();
					format!(
						"\"adt\":{},\"variant\":{},\"vidx\":{},\"fields\":[{}]",
						esc(&path_of(tcx, *did)),
						esc(&vname),
						vidx.index(),
						fields.join(",")
					)
				}
				AggregateKind::Closure(did, _) => format!("\"closure\":{}", esc(&path_of(tcx, *did))),
				AggregateKind::Tuple => "\"tuple\":true".to_string(),
				AggregateKind::Array(_) => "\"array\":true".to_string(),
				_ => "\"otheragg\":true".to_string(),
			};
			format!("{{\"r\":\"agg\",{},\"ops\":[{}]}}", k, opsj.join(","))
		}
		Rvalue::Repeat(o, _) => format!("{{\"r\":\"repeat\",\"a\":{}}}", operand_json(tcx, env, body, o)),
		other => format!("{{\"r\":\"other\",\"dbg\":{}}}", esc(&format!("{:?}", other))),
	}
}

fn assert_kind<'tcx>(m: &AssertKind<Operand<'tcx>>) -> String {
	match m {
		AssertKind::BoundsCheck { .. } => "BoundsCheck".into(),
		AssertKind::Overflow(op, ..) => format!("Overflow({:?})", op),
		AssertKind::OverflowNeg(_) => "OverflowNeg".into(),
		AssertKind::DivisionByZero(_) => "DivisionByZero".into(),
		AssertKind::RemainderByZero(_) => "RemainderByZero".into(),
		AssertKind::MisalignedPointerDereference { .. } => "Misaligned".into(),
		AssertKind::NullPointerDereference => "NullPtr".into(),
		_ => "Other".into(),
	}
}

fn bb(b: BasicBlock) -> usize {
	b.index()
}

/// Resolve a call's callee given a function type (already instantiated if needed).
fn resolve<'tcx>(
	tcx: TyCtxt<'tcx>,
	env: TypingEnv<'tcx>,
	fty: Ty<'tcx>,
) -> (Option<DefId>, Option<Instance<'tcx>>, String) {
	match fty.kind() {
		ty::FnDef(did, args) => {
			let r = Instance::try_resolve(tcx, env, *did, args).ok().flatten();
			(Some(*did), r, format!("{:?}", args))
		}
		_ => (None, None, String::new()),
	}
}

fn dump_body<'tcx>(tcx: TyCtxt<'tcx>, did: DefId, out: &mut String) {
	let body = tcx.optimized_mir(did);
	let env = TypingEnv::post_analysis(tcx, did);
	let kind = tcx.def_kind(did);
	let key = path_of(tcx, did);
	let _ = write!(out, "{{\"t\":\"fn\",\"key\":{},\"skey\":{},\"kind\":{}", esc(&key), esc(&stable_of(tcx, did)), esc(&format!("{:?}", kind)));
	let _ = write!(out, ",\"span\":{}", span_json(tcx, body.span));
	let _ = write!(out, ",\"generic\":{}", tcx.generics_of(did).count() > 0);
	if matches!(kind, DefKind::Closure) {
		let parent = tcx.typeck_root_def_id(did);
		let _ = write!(out, ",\"parent\":{}", esc(&path_of(tcx, parent)));
	}
	if matches!(kind, DefKind::AssocFn) {
		if let Some(imp) = tcx.impl_of_assoc(did) {
			let self_ty = tcx.type_of(imp).instantiate_identity().skip_normalization();
			let _ = write!(out, ",\"impl_self\":{}", ty_json(tcx, self_ty));
			if let Some(tr) = tcx.impl_opt_trait_ref(imp) {
				let tr = tr.instantiate_identity().skip_normalization();
				let _ = write!(out, ",\"impl_trait\":{}", esc(&path_of(tcx, tr.def_id)));
			}
		}
	}
	let _ = write!(out, ",\"argc\":{}", body.arg_count);
	// locals
	out.push_str(",\"locals\":[");
	for (i, (_l, d)) in body.local_decls.iter_enumerated().enumerate() {
		if i > 0 {
			out.push(',');
		}
		out.push_str(&ty_json(tcx, d.ty));
	}
	out.push(']');
	// var debug info: names of user variables
	out.push_str(",\"names\":{");
	let mut first = true;
	for vdi in &body.var_debug_info {
		if let rustc_middle::mir::VarDebugInfoContents::Place(p) = &vdi.value {
			if p.projection.is_empty() {
				if !first {
					out.push(',');
				}
				first = false;
				let _ = write!(out, "\"{}\":{}", p.local.index(), esc(&vdi.name.to_string()));
			}
		}
	}
	out.push('}');
	out.push_str(",\"blocks\":[");
	for (bi, (_b, data)) in body.basic_blocks.iter_enumerated().enumerate() {
		if bi > 0 {
			out.push(',');
		}
		let _ = write!(out, "{{\"cleanup\":{},\"st\":[", data.is_cleanup);
		let mut firsts = true;
		for st in &data.statements {
			let s = match &st.kind {
				StatementKind::Assign(b) => {
					let (pl, rv) = &**b;
					Some(format!(
						"{{\"k\":\"assign\",\"dst\":{},\"rv\":{},\"line\":{}}}",
						place_json(tcx, body, pl),
						rvalue_json(tcx, env, body, rv),
						tcx.sess.source_map().lookup_char_pos(st.source_info.span.source_callsite().lo()).line
					))
				}
				StatementKind::SetDiscriminant { place, variant_index } => Some(format!(
					"{{\"k\":\"setdiscr\",\"dst\":{},\"v\":{}}}",
					place_json(tcx, body, place),
					variant_index.index()
				)),
				StatementKind::StorageDead(l) => Some(format!("{{\"k\":\"dead\",\"l\":{}}}", l.index())),
				_ => None,
			};
			if let Some(s) = s {
				if !firsts {
					out.push(',');
				}
				firsts = false;
				out.push_str(&s);
			}
		}
		out.push_str("],\"term\":");
		let term = data.terminator();
		let tspan = span_json(tcx, term.source_info.span);
		match &term.kind {
			TerminatorKind::Goto { target } => {
				let _ = write!(out, "{{\"k\":\"goto\",\"t\":{}}}", bb(*target));
			}
			TerminatorKind::SwitchInt { discr, targets } => {
				let mut arms = Vec::new();
				for (v, t) in targets.iter() {
					arms.push(format!("[{},{}]", esc(&format!("{}", v)), bb(t)));
				}
				let _ = write!(
					out,
					"{{\"k\":\"switch\",\"d\":{},\"arms\":[{}],\"else\":{},\"span\":{}}}",
					operand_json(tcx, env, body, discr),
					arms.join(","),
					bb(targets.otherwise()),
					tspan
				);
			}
			TerminatorKind::Return => out.push_str("{\"k\":\"return\"}"),
			TerminatorKind::Unreachable => out.push_str("{\"k\":\"unreachable\"}"),
			TerminatorKind::UnwindResume | TerminatorKind::UnwindTerminate(_) => {
				out.push_str("{\"k\":\"resume\"}")
			}
			TerminatorKind::Drop { place, target, .. } => {
				let _ = write!(
					out,
					"{{\"k\":\"drop\",\"pl\":{},\"t\":{}}}",
					place_json(tcx, body, place),
					bb(*target)
				);
			}
			TerminatorKind::Assert { cond, expected, msg, target, .. } => {
				let _ = write!(
					out,
					"{{\"k\":\"assert\",\"kind\":{},\"cond\":{},\"exp\":{},\"t\":{},\"span\":{}}}",
					esc(&assert_kind(msg)),
					operand_json(tcx, env, body, cond),
					expected,
					bb(*target),
					tspan
				);
			}
			TerminatorKind::Call { func, args, destination, target, fn_span, .. } => {
				let fty = func.ty(body, tcx);
				let (sdid, inst, gargs) = resolve(tcx, env, fty);
				let argsj: Vec<String> =
					args.iter().map(|a| operand_json(tcx, env, body, &a.node)).collect();
				let _ = write!(out, "{{\"k\":\"call\"");
				match sdid {
					Some(d) => {
						let _ = write!(out, ",\"callee\":{},\"gargs\":{}", esc(&path_of(tcx, d)), esc(&gargs));
						// closures / fn items passed as generic args
						if let ty::FnDef(_, ga) = fty.kind() {
							let mut cl = Vec::new();
							for a in ga.iter() {
								if let Some(t) = a.as_type() {
									match t.kind() {
										ty::Closure(cd, _) => cl.push(esc(&path_of(tcx, *cd))),
										ty::FnDef(fd, _) => cl.push(esc(&path_of(tcx, *fd))),
										_ => {}
									}
								}
							}
							let _ = write!(out, ",\"callables\":[{}]", cl.join(","));
						}
					}
					None => {
						let _ = write!(out, ",\"indirect\":{}", operand_json(tcx, env, body, func));
					}
				}
				if let Some(i) = inst {
					let virt = matches!(i.def, ty::InstanceKind::Virtual(..));
					let _ = write!(
						out,
						",\"resolved\":{},\"virtual\":{}",
						esc(&path_of(tcx, i.def_id())),
						virt
					);
				}
				let _ = write!(
					out,
					",\"args\":[{}],\"dst\":{},\"t\":{},\"span\":{}}}",
					argsj.join(","),
					place_json(tcx, body, destination),
					target.map(|t| bb(t) as i64).unwrap_or(-1),
					span_json(tcx, *fn_span)
				);
			}
			other => {
				let _ = write!(out, "{{\"k\":\"other\",\"dbg\":{}}}", esc(&format!("{:?}", other)));
			}
		}
		out.push('}');
	}
	out.push_str("]}\n");
}

struct UnsafeFinder<'tcx> {
	tcx: TyCtxt<'tcx>,
	found: Vec<Span>,
}
impl<'tcx> rustc_hir::intravisit::Visitor<'tcx> for UnsafeFinder<'tcx> {
	fn visit_block(&mut self, b: &'tcx rustc_hir::Block<'tcx>) {
		if let rustc_hir::BlockCheckMode::UnsafeBlock(rustc_hir::UnsafeSource::UserProvided) = b.rules {
			self.found.push(b.span);
		}
		rustc_hir::intravisit::walk_block(self, b);
	}
}

fn is_ws_crate(name: &str) -> bool {
	name == "grin" || name.starts_with("grin_")
}

/// A generic argument list mentions a workspace type, closure, fn item or trait object: an upstream (std / third-party)
/// generic function instantiated with it can call back into workspace code (`Iterator::collect::<IteratingReader<..>>` runs
/// `<IteratingReader as Iterator>::next`), so its body is walked too (recorded with `"ext":true`).
fn mentions_ws<'tcx>(tcx: TyCtxt<'tcx>, args: ty::GenericArgsRef<'tcx>) -> bool {
	for ga in args.iter() {
		for inner in ga.walk() {
			if let Some(t) = inner.as_type() {
				let did = match t.kind() {
					ty::Adt(def, _) => Some(def.did()),
					ty::Closure(d, _) | ty::FnDef(d, _) => Some(*d),
					ty::Dynamic(preds, ..) => preds.principal_def_id(),
					_ => None,
				};
				if let Some(d) = did {
					if is_ws_crate(&krate_of(tcx, d)) {
						return true;
					}
				}
			}
		}
	}
	false
}

/// Stable, compact id of an instance within one session (the Debug rendering of deeply nested future/closure types runs to megabytes).
fn inst_id<'tcx>(i: &Instance<'tcx>) -> String {
	use std::hash::{Hash, Hasher};
	let s = format!("{:?}", i);
	if s.len() <= 240 {
		return s;
	}
	let mut h = std::collections::hash_map::DefaultHasher::new();
	s.hash(&mut h);
	let mut cut = 160;
	while !s.is_char_boundary(cut) {
		cut -= 1;
	}
	format!("{}..#{:016x}", &s[..cut], h.finish())
}

/// Instantiated call graph: walk concrete instances starting from all non-generic local fns.
/// Edges: direct calls (resolved through `Instance::try_resolve`), closures created in the body
/// (a created closure may run), fn items used as values (reified), and for virtual calls every
/// non-generic local or upstream impl of the trait method (class hierarchy).
fn walk_instances<'tcx>(tcx: TyCtxt<'tcx>, out: &mut String) {
	let env = TypingEnv::fully_monomorphized();
	let mut seen: HashSet<String> = HashSet::new();
	let mut q: VecDeque<Instance<'tcx>> = VecDeque::new();
	for ldid in tcx.mir_keys(()) {
		let did = ldid.to_def_id();
		if !matches!(tcx.def_kind(did), DefKind::Fn | DefKind::AssocFn) {
			continue;
		}
		if tcx.generics_of(did).requires_monomorphization(tcx) {
			continue;
		}
		q.push_back(Instance::mono(tcx, did));
	}
	let walk_ext = std::env::var("MIRFACTS_NO_EXT").is_err();
	let mut n = 0usize;
	while let Some(inst) = q.pop_front() {
		let key = inst_id(&inst);
		if !seen.insert(key.clone()) {
			continue;
		}
		n += 1;
		if n > 300_000 {
			let _ = write!(out, "{{\"t\":\"walk_truncated\",\"n\":{}}}\n", n);
			break;
		}
		let did = inst.def_id();
		if matches!(inst.def, ty::InstanceKind::Virtual(..)) || !tcx.is_mir_available(did) {
			continue;
		}
		if !matches!(inst.def, ty::InstanceKind::Item(_)) {
			// shims: record nothing (closures are enqueued where they are created)
			continue;
		}
		let body = tcx.instance_mir(inst.def);
		let mut edges = Vec::new();
		let mut asserts = Vec::new();
		let push_value_fn = |fty: Ty<'tcx>, b: usize, sp: Span, edges: &mut Vec<String>, q: &mut VecDeque<Instance<'tcx>>| {
			if let ty::FnDef(cdid, cargs) = fty.kind() {
				if let Ok(Some(ci)) = Instance::try_resolve(tcx, env, *cdid, cargs) {
					edges.push(format!(
						"[{},{},{},{},{},{},\"reify\"]",
						b,
						esc(&path_of(tcx, ci.def_id())),
						esc(&inst_id(&ci)),
						matches!(ci.def, ty::InstanceKind::Virtual(..)),
						esc(&stable_of(tcx, ci.def_id())),
						span_json(tcx, sp)
					));
					if is_ws_crate(&krate_of(tcx, ci.def_id())) || (walk_ext && mentions_ws(tcx, ci.args)) {
						q.push_back(ci);
					}
				}
			}
		};
		for (b, data) in body.basic_blocks.iter_enumerated() {
			if data.is_cleanup {
				continue;
			}
			for st in &data.statements {
				if let StatementKind::Assign(bx) = &st.kind {
					let (_pl, rv) = &**bx;
					match rv {
						Rvalue::Aggregate(kind, ops) => {
							if let AggregateKind::Closure(cdid, cargs) = &**kind {
								let cargs = inst.instantiate_mir_and_normalize_erasing_regions(
									tcx,
									env,
									ty::EarlyBinder::bind(*cargs),
								);
								let ci = Instance::new_raw(*cdid, cargs);
								edges.push(format!(
									"[{},{},{},false,{},{},\"closure\"]",
									b.index(),
									esc(&path_of(tcx, *cdid)),
									esc(&inst_id(&ci)),
									esc(&stable_of(tcx, *cdid)),
									span_json(tcx, st.source_info.span)
								));
								q.push_back(ci);
							}
							for o in ops.iter() {
								if let Operand::Constant(c) = o {
									let t = inst.instantiate_mir_and_normalize_erasing_regions(
										tcx,
										env,
										ty::EarlyBinder::bind(c.const_.ty()),
									);
									push_value_fn(t, b.index(), st.source_info.span, &mut edges, &mut q);
								}
							}
						}
						Rvalue::Use(Operand::Constant(c), ..) | Rvalue::Cast(_, Operand::Constant(c), _) => {
							let t = inst.instantiate_mir_and_normalize_erasing_regions(
								tcx,
								env,
								ty::EarlyBinder::bind(c.const_.ty()),
							);
							push_value_fn(t, b.index(), st.source_info.span, &mut edges, &mut q);
						}
						_ => {}
					}
				}
			}
			if let TerminatorKind::Assert { msg, .. } = &data.terminator().kind {
				asserts.push(format!(
					"[{},{},{}]",
					b.index(),
					esc(&assert_kind(msg)),
					span_json(tcx, data.terminator().source_info.span)
				));
			}
			if let TerminatorKind::Call { func, args, fn_span, .. } = &data.terminator().kind {
				let fn_span = *fn_span;
				for a in args.iter() {
					if let Operand::Constant(c) = &a.node {
						let t = inst.instantiate_mir_and_normalize_erasing_regions(
							tcx,
							env,
							ty::EarlyBinder::bind(c.const_.ty()),
						);
						push_value_fn(t, b.index(), fn_span, &mut edges, &mut q);
					}
				}
				let fty = func.ty(body, tcx);
				let fty = inst.instantiate_mir_and_normalize_erasing_regions(
					tcx,
					env,
					ty::EarlyBinder::bind(fty),
				);
				if let ty::FnDef(cdid, cargs) = fty.kind() {
					match Instance::try_resolve(tcx, env, *cdid, cargs) {
						Ok(Some(ci)) => {
							let virt = matches!(ci.def, ty::InstanceKind::Virtual(..));
							edges.push(format!(
								"[{},{},{},{},{},{},\"call\"]",
								b.index(),
								esc(&path_of(tcx, ci.def_id())),
								esc(&inst_id(&ci)),
								virt,
								esc(&stable_of(tcx, ci.def_id())),
								span_json(tcx, fn_span)
							));
							if virt {
								// class hierarchy: every impl of the trait method
								if let Some(trait_did) = tcx.trait_of_assoc(ci.def_id()) {
									for imp in tcx.all_impls(trait_did) {
										if !is_ws_crate(&krate_of(tcx, imp)) {
											continue;
										}
										if let Some(mid) = tcx.impl_item_implementor_ids(imp).get(&ci.def_id()) {
											let generic = tcx.generics_of(*mid).requires_monomorphization(tcx);
											let id = if generic { "?".to_string() } else { inst_id(&Instance::mono(tcx, *mid)) };
											edges.push(format!(
												"[{},{},{},false,{},{},\"cha\"]",
												b.index(),
												esc(&path_of(tcx, *mid)),
												esc(&id),
												esc(&stable_of(tcx, *mid)),
												span_json(tcx, fn_span)
											));
											if !generic {
												q.push_back(Instance::mono(tcx, *mid));
											}
										}
									}
								}
							} else if is_ws_crate(&krate_of(tcx, ci.def_id())) || (walk_ext && mentions_ws(tcx, ci.args)) {
								q.push_back(ci);
							}
						}
						_ => {
							edges.push(format!(
								"[{},{},\"?\",false,{},{},\"call\"]",
								b.index(),
								esc(&path_of(tcx, *cdid)),
								esc(&stable_of(tcx, *cdid)),
								span_json(tcx, fn_span)
							));
						}
					}
				} else {
					edges.push(format!(
						"[{},\"<indirect>\",\"?\",false,\"<indirect>\",{},\"indirect\"]",
						b.index(),
						span_json(tcx, fn_span)
					));
				}
			}
		}
		let _ = write!(
			out,
			"{{\"t\":\"inst\",\"ext\":{},\"id\":{},\"key\":{},\"skey\":{},\"edges\":[{}],\"asserts\":[{}]}}\n",
			!is_ws_crate(&krate_of(tcx, did)),
			esc(&key),
			esc(&path_of(tcx, did)),
			esc(&stable_of(tcx, did)),
			edges.join(","),
			asserts.join(",")
		);
	}
}

struct Cb;
impl rustc_driver::Callbacks for Cb {
	fn after_analysis<'tcx>(
		&mut self,
		_c: &rustc_interface::interface::Compiler,
		tcx: TyCtxt<'tcx>,
	) -> Compilation {
		let krate = tcx.crate_name(rustc_span::def_id::LOCAL_CRATE).to_string();
		if !is_ws_crate(&krate) {
			return Compilation::Continue;
		}
		rustc_middle::ty::print::with_no_visible_paths!(rustc_middle::ty::print::with_resolve_crate_name!(
			rustc_middle::ty::print::with_no_trimmed_paths!(self.dump(tcx, krate))
		))
	}
}
impl Cb {
	fn dump<'tcx>(&mut self, tcx: TyCtxt<'tcx>, krate: String) -> Compilation {
		// skip build scripts and proc-macro-ish things
		if std::env::var("CARGO_CRATE_NAME").map(|n| n == "build_script_build").unwrap_or(false) {
			return Compilation::Continue;
		}
		let outdir = std::env::var("MIRFACTS_OUT").expect("MIRFACTS_OUT not set");
		std::fs::create_dir_all(&outdir).ok();
		let mut out = String::new();
		let _ = write!(out, "{{\"t\":\"hdr\",\"crate\":{},\"nonce\":{}}}\n", esc(&krate), esc(&std::env::var("MIRFACTS_NONCE").unwrap_or_default()));
		let mut nfn = 0;
		for ldid in tcx.mir_keys(()) {
			let did = ldid.to_def_id();
			let kind = tcx.def_kind(did);
			if !matches!(kind, DefKind::Fn | DefKind::AssocFn | DefKind::Closure) {
				continue;
			}
			dump_body(tcx, did, &mut out);
			nfn += 1;
		}
		// ADTs
		for ldid in tcx.hir_crate_items(()).definitions() {
			let did = ldid.to_def_id();
			match tcx.def_kind(did) {
				DefKind::Struct | DefKind::Enum => {
					let def = tcx.adt_def(did);
					let mut vs = Vec::new();
					let discrs: Vec<String> = if def.is_enum() {
						def.discriminants(tcx).map(|(_, d)| format!("{}", d.val)).collect()
					} else {
						Vec::new()
					};
					for (vi, v) in def.variants().iter().enumerate() {
						let fs: Vec<String> = v
							.fields
							.iter()
							.map(|f| {
								format!(
									"[{},{}]",
									esc(&f.name.to_string()),
									esc(&format!("{}", tcx.type_of(f.did).instantiate_identity().skip_normalization()))
								)
							})
							.collect();
						vs.push(format!(
							"{{\"name\":{},\"discr\":{},\"fields\":[{}]}}",
							esc(&v.name.to_string()),
							esc(discrs.get(vi).map(|s| s.as_str()).unwrap_or("")),
							fs.join(",")
						));
					}
					let _ = write!(
						out,
						"{{\"t\":\"adt\",\"key\":{},\"enum\":{},\"variants\":[{}]}}\n",
						esc(&path_of(tcx, did)),
						def.is_enum(),
						vs.join(",")
					);
				}
				DefKind::Const { .. } | DefKind::AssocConst { .. } => {
					let t = tcx.type_of(did).instantiate_identity().skip_normalization();
					if matches!(t.kind(), ty::Bool | ty::Int(_) | ty::Uint(_)) {
						if let Ok(v) = tcx.const_eval_poly(did) {
							if let Some(si) = v.try_to_scalar_int() {
								let sz = si.size();
								let _ = write!(
									out,
									"{{\"t\":\"const\",\"key\":{},\"ty\":{},\"v\":{}}}\n",
									esc(&path_of(tcx, did)),
									esc(&format!("{}", t)),
									esc(&format!("{}", si.to_bits(sz)))
								);
							}
						}
					}
				}
				_ => {}
			}
		}
		// user-written unsafe blocks (trusted-base inventory)
		for owner in tcx.hir_body_owners() {
			if let Some(body) = tcx.hir_maybe_body_owned_by(owner) {
				let mut f = UnsafeFinder { tcx, found: Vec::new() };
				rustc_hir::intravisit::Visitor::visit_body(&mut f, body);
				let _ = f.tcx;
				for sp in f.found {
					if sp.from_expansion() {
						continue;
					}
					let _ = write!(
						out,
						"{{\"t\":\"unsafe\",\"fn\":{},\"span\":{}}}\n",
						esc(&path_of(tcx, owner.to_def_id())),
						span_json(tcx, sp)
					);
				}
			}
		}
		// trait impls
		for (trait_did, impls) in tcx.all_local_trait_impls(()).iter() {
			for imp in impls {
				let self_ty = tcx.type_of(imp.to_def_id()).instantiate_identity().skip_normalization();
				let _ = write!(
					out,
					"{{\"t\":\"impl\",\"trait\":{},\"self\":{},\"span\":{}}}\n",
					esc(&path_of(tcx, *trait_did)),
					ty_json(tcx, self_ty),
					span_json(tcx, tcx.def_span(imp.to_def_id()))
				);
			}
		}
		if std::env::var("MIRFACTS_NOWALK").is_err() {
			walk_instances(tcx, &mut out);
		}
		std::fs::write(format!("{}/{}.jsonl", outdir, krate), out).unwrap();
		eprintln!("mirfacts: {} fns in {}", nfn, krate);
		Compilation::Continue
	}
}

fn main() {
	let mut args: Vec<String> = std::env::args().collect();
	// RUSTC_WORKSPACE_WRAPPER: argv[1] is the rustc path
	args.remove(1);
	rustc_driver::run_compiler(&args, &mut Cb);
}
