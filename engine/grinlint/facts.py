"""Fact loader: one global view over the per-crate JSONL files written by mirfacts."""
import collections
import glob
import json
import os
import pickle
import re


def norm(name):
    """Strip generic-argument segments (`::<..>` and `<'a>`) from a canonical path, keep leading `<T as Tr>`."""
    if not name:
        return name
    out = []
    i = 0
    n = len(name)
    while i < n:
        if name.startswith("::<", i) and not name.startswith("::<impl ", i):
            depth = 0
            j = i + 2
            while j < n:
                c = name[j]
                if c == "<":
                    depth += 1
                elif c == ">" and name[j - 1] != "-":
                    depth -= 1
                    if depth == 0:
                        break
                j += 1
            i = j + 1
            continue
        out.append(name[i])
        i += 1
    return "".join(out)


def strip_impl(name):
    """`a::<impl X>::m` -> `a::m` (inherent impl segments carry no information for matching)."""
    while name and "::<impl " in name:
        i = name.index("::<impl ")
        depth = 0
        j = i + 2
        while j < len(name):
            if name[j] == "<":
                depth += 1
            elif name[j] == ">" and name[j - 1] != "-":
                depth -= 1
                if depth == 0:
                    break
            j += 1
        name = name[:i] + name[j + 1:]
    return name


def short(name, n=2):
    """Readable short form: last n path segments; `<X as path::Trait>::m` becomes `Trait::m`."""
    name = norm(name or "?")
    # inherent / trait impl segments: `a::<impl [T]>::m` -> `a::m`, `a::<impl Tr<X> for Y>::m` -> `a::Tr::m`
    while "::<impl " in name:
        i = name.index("::<impl ")
        depth = 0
        j = i + 2
        while j < len(name):
            if name[j] == "<":
                depth += 1
            elif name[j] == ">" and name[j - 1] != "-":
                depth -= 1
                if depth == 0:
                    break
            j += 1
        inner = name[i + 8:j]
        d = 0
        cut = -1
        for q in range(len(inner)):
            if inner[q] in "<[(":
                d += 1
            elif inner[q] in ">])":
                d -= 1
            elif d == 0 and inner.startswith(" for ", q):
                cut = q
                break
        mid = ("::" + re.sub(r"<.*$", "", inner[:cut]).split("::")[-1]) if cut >= 0 else ""
        name = name[:i] + mid + name[j + 1:]
    if name.startswith("<"):
        # find the matching '>' of the leading qualified-self
        depth = 0
        for i, ch in enumerate(name):
            if ch == "<":
                depth += 1
            elif ch == ">" and name[i - 1] != "-":
                depth -= 1
                if depth == 0:
                    break
        inner, rest = name[1:i], name[i + 1:]
        # split `X as Trait` at top level
        d = 0
        cut = -1
        for j in range(len(inner)):
            if inner[j] == "<":
                d += 1
            elif inner[j] == ">":
                d -= 1
            elif d == 0 and inner.startswith(" as ", j):
                cut = j
        if cut >= 0:
            tr = re.sub(r"<.*$", "", inner[cut + 4:])
            name = tr + rest
        else:
            name = re.sub(r"<.*$", "", inner) + rest
    name = re.sub(r"<[^<>]*>", "", name)
    name = re.sub(r"<[^<>]*>", "", name)
    return "::".join(name.split("::")[-n:])


class Facts:
    def __init__(self, d):
        self.dir = d
        import hashlib
        stamp = hashlib.sha1(open(os.path.abspath(__file__), "rb").read()).hexdigest()[:10]
        pk = os.path.join(d, "facts-%s.pkl" % stamp)
        for old in glob.glob(os.path.join(d, "facts*.pkl")):
            if old != pk:
                try:
                    os.remove(old)
                except OSError:
                    pass
        if os.path.exists(pk):
            with open(pk, "rb") as fh:
                self.__dict__.update(pickle.load(fh))
            self.dir = d
            return
        self.fns = {}
        self.by_crate = collections.defaultdict(list)
        self.adts = {}
        self.consts = {}
        self.impls = []
        self.inst = {}
        self.hdr = {}
        self.unsafes = []
        for f in sorted(glob.glob(os.path.join(d, "*.jsonl"))):
            crate = os.path.basename(f)[:-6]
            self.inst[crate] = {}
            with open(f) as fh:
                for line in fh:
                    r = json.loads(line)
                    t = r["t"]
                    if t == "fn":
                        r["crate"] = crate
                        k = norm(r["key"])
                        r["nkey"] = k
                        if k in self.fns:
                            i = 1
                            while "%s#%d" % (k, i) in self.fns:
                                i += 1
                            k = "%s#%d" % (k, i)
                            r["nkey"] = k
                        self.fns[k] = r
                        self.by_crate[crate].append(k)
                    elif t == "adt":
                        self.adts[r["key"]] = r
                    elif t == "const":
                        self.consts[r["key"]] = r
                    elif t == "impl":
                        r["crate"] = crate
                        self.impls.append(r)
                    elif t == "inst":
                        self.inst[crate][r["id"]] = r
                    elif t == "unsafe":
                        r["crate"] = crate
                        r["nfn"] = norm(r["fn"])
                        self.unsafes.append(r)
                    elif t == "hdr":
                        self.hdr[crate] = r
                    elif t == "walk_truncated":
                        raise RuntimeError("instance walk truncated in " + crate)
        # normalised callee names on every call terminator, callers index
        self.callers = collections.defaultdict(list)
        for k, fn in self.fns.items():
            if fn.get("parent"):
                fn["parent"] = norm(fn["parent"])
            for bi, b in enumerate(fn["blocks"]):
                t = b["term"]
                if t["k"] == "call":
                    t["ncallee"] = norm(t.get("callee")) if t.get("callee") else None
                    t["nresolved"] = norm(t.get("resolved")) if t.get("resolved") else None
                    t["ncallables"] = [norm(c) for c in t.get("callables", [])]
                    names = []
                    for x in (t["nresolved"], t["ncallee"]):
                        if x and x not in names:
                            names.append(x)
                    for x in list(names):
                        y = strip_impl(x)
                        if y not in names:
                            names.append(y)
                    t["names"] = names
                    if not b["cleanup"]:
                        for name in names:
                            self.callers[name].append((k, bi))
        self.callers = dict(self.callers)
        self.by_crate = dict(self.by_crate)
        try:
            with open(pk + ".tmp%d" % os.getpid(), "wb") as fh:
                pickle.dump({k: v for k, v in self.__dict__.items() if k != "dir"}, fh, protocol=pickle.HIGHEST_PROTOCOL)
            os.rename(pk + ".tmp%d" % os.getpid(), pk)
        except OSError:
            pass

    # ---------------------------------------------------------------- lookup helpers
    def fn(self, key):
        return self.fns.get(key)

    def find(self, pat):
        rx = re.compile(pat)
        return sorted(k for k in self.fns if rx.search(k))

    def closures_of(self, key):
        return sorted(k for k, f in self.fns.items() if f.get("parent") == key and f["kind"] == "Closure")

    def calls(self, key):
        fn = self.fns[key]
        for bi, b in enumerate(fn["blocks"]):
            if b["term"]["k"] == "call" and not b["cleanup"]:
                yield bi, b["term"]


def callee_names(t):
    return t.get("names") or [x for x in (t.get("nresolved"), t.get("ncallee")) if x]


def call_matches(t, rx):
    return any(rx.search(n) for n in callee_names(t))


def loc(t):
    s = t.get("span") or {}
    f = s.get("file", "?")
    if f.startswith("/repo/"):
        f = f[6:]
    return "%s:%s" % (f, s.get("lo", "?"))


def fn_loc(fn):
    s = fn.get("span") or {}
    return "%s:%s" % (s.get("file", "?"), s.get("lo", "?"))
