"""Fact loader: one global view over the per-crate JSONL files written by mirfacts."""
import collections
import glob
import json
import os
import pickle
import re


def norm(name):
    """Strip generic-argument segments (`::<..>` and `<'a>`) from a canonical path, keep leading `<T as Tr>`."""
    if not name:
        return name
    out = []
    i = 0
    n = len(name)
    while i < n:
        if name.startswith("::<", i) and not name.startswith("::<impl ", i):
            depth = 0
            j = i + 2
            while j < n:
                c = name[j]
                if c == "<":
                    depth += 1
                elif c == ">" and name[j - 1] != "-":
                    depth -= 1
                    if depth == 0:
                        break
                j += 1
            i = j + 1
            continue
        out.append(name[i])
        i += 1
    return "".join(out)


def strip_impl(name):
    """`a::<impl X>::m` -> `a::m` (inherent impl segments carry no information for matching)."""
    while name and "::<impl " in name:
        i = name.index("::<impl ")
        depth = 0
        j = i + 2
        while j < len(name):
            if name[j] == "<":
                depth += 1
            elif name[j] == ">" and name[j - 1] != "-":
                depth -= 1
                if depth == 0:
                    break
            j += 1
        name = name[:i] + name[j + 1:]
    return name


def short(name, n=2):
    """Readable short form: last n path segments; `<X as path::Trait>::m` becomes `Trait::m`."""
    name = norm(name or "?")
    # inherent / trait impl segments: `a::<impl [T]>::m` -> `a::m`, `a::<impl Tr<X> for Y>::m` -> `a::Tr::m`
    while "::<impl " in name:
        i = name.index("::<impl ")
        depth = 0
        j = i + 2
        while j < len(name):
            if name[j] == "<":
                depth += 1
            elif name[j] == ">" and name[j - 1] != "-":
                depth -= 1
                if depth == 0:
                    break
            j += 1
        inner = name[i + 8:j]
        d = 0
        cut = -1
        for q in range(len(inner)):
            if inner[q] in "<[(":
                d += 1
            elif inner[q] in ">])":
                d -= 1
            elif d == 0 and inner.startswith(" for ", q):
                cut = q
                break
        mid = ("::" + re.sub(r"<.*$", "", inner[:cut]).split("::")[-1]) if cut >= 0 else ""
        name = name[:i] + mid + name[j + 1:]
    if name.startswith("<"):
        # find the matching '>' of the leading qualified-self
        depth = 0
        for i, ch in enumerate(name):
            if ch == "<":
                depth += 1
            elif ch == ">" and name[i - 1] != "-":
                depth -= 1
                if depth == 0:
                    break
        inner, rest = name[1:i], name[i + 1:]
        # split `X as Trait` at top level
        d = 0
        cut = -1
        for j in range(len(inner)):
            if inner[j] == "<":
                d += 1
            elif inner[j] == ">":
                d -= 1
            elif d == 0 and inner.startswith(" as ", j):
                cut = j
        if cut >= 0:
            tr = re.sub(r"<.*$", "", inner[cut + 4:])
            name = tr + rest
        else:
            name = re.sub(r"<.*$", "", inner) + rest
    name = re.sub(r"<[^<>]*>", "", name)
    name = re.sub(r"<[^<>]*>", "", name)
    return "::".join(name.split("::")[-n:])


class Facts:
    def __init__(self, d):
        self.dir = d
        import hashlib
        stamp = hashlib.sha1(open(os.path.abspath(__file__), "rb").read()).hexdigest()[:10]
        pk = os.path.join(d, "facts-%s.pkl" % stamp)
        for old in glob.glob(os.path.join(d, "facts*.pkl")):
            if old != pk:
                try:
                    os.remove(old)
                except OSError:
                    pass
        if os.path.exists(pk):
            with open(pk, "rb") as fh:
                self.__dict__.update(pickle.load(fh))
            self.dir = d
            return
        self.fns = {}
        self.by_crate = collections.defaultdict(list)
        self.adts = {}
        self.consts = {}
        self.impls = []
        self.inst = {}
        self.hdr = {}
        self.unsafes = []
        for f in sorted(glob.glob(os.path.join(d, "*.jsonl"))):
            crate = os.path.basename(f)[:-6]
            self.inst[crate] = {}
            with open(f) as fh:
                for line in fh:
                    r = json.loads(line)
                    t = r["t"]
                    if t == "fn":
                        r["crate"] = crate
                        k = norm(r["key"])
                        r["nkey"] = k
                        if k in self.fns:
                            i = 1
                            while "%s#%d" % (k, i) in self.fns:
                                i += 1
                            k = "%s#%d" % (k, i)
                            r["nkey"] = k
                        self.fns[k] = r
                        self.by_crate[crate].append(k)
                    elif t == "adt":
                        self.adts[r["key"]] = r
                    elif t == "const":
                        self.consts[r["key"]] = r
                    elif t == "impl":
                        r["crate"] = crate
                        self.impls.append(r)
                    elif t == "inst":
                        self.inst[crate][r["id"]] = r
                    elif t == "unsafe":
                        r["crate"] = crate
                        r["nfn"] = norm(r["fn"])
                        self.unsafes.append(r)
                    elif t == "hdr":
                        self.hdr[crate] = r
                    elif t == "walk_truncated":
                        raise RuntimeError("instance walk truncated in " + crate)
        # normalised callee names on every call terminator, callers index
        self.callers = collections.defaultdict(list)
        for k, fn in self.fns.items():
            if fn.get("parent"):
                fn["parent"] = norm(fn["parent"])
            for bi, b in enumerate(fn["blocks"]):
                t = b["term"]
                if t["k"] == "call":
                    t["ncallee"] = norm(t.get("callee")) if t.get("callee") else None
                    t["nresolved"] = norm(t.get("resolved")) if t.get("resolved") else None
                    t["ncallables"] = [norm(c) for c in t.get("callables", [])]
                    names = []
                    for x in (t["nresolved"], t["ncallee"]):
                        if x and x not in names:
                            names.append(x)
                    for x in list(names):
                        y = strip_impl(x)
                        if y not in names:
                            names.append(y)
                    t["names"] = names
                    if not b["cleanup"]:
                        for name in names:
                            self.callers[name].append((k, bi))
        self.callers = dict(self.callers)
        self.by_crate = dict(self.by_crate)
        self._bridge()
        try:
            with open(pk + ".tmp%d" % os.getpid(), "wb") as fh:
                pickle.dump({k: v for k, v in self.__dict__.items() if k != "dir"}, fh, protocol=pickle.HIGHEST_PROTOCOL)
            os.rename(pk + ".tmp%d" % os.getpid(), pk)
        except OSError:
            pass

    def _bridge(self):
        """`t["bridged"]`: workspace functions a call into upstream generic code (std, third-party) can run - `Iterator::collect` runs
        `<IteratingReader as Iterator>::next`, `sort` runs `<Input as Ord>::cmp`, `to_string` runs `<Hash as Display>::fmt`. Taken from the
        instantiated walk, which passes through every upstream generic instantiated with a workspace type, closure or fn item."""
        self.n_bridged = 0
        for crate, inst in self.inst.items():
            memo = {}

            def ext_reach(i0):
                if i0 in memo:
                    return memo[i0]
                out, seen, stack = set(), {i0}, [i0]
                while stack:
                    r = inst.get(stack.pop())
                    if not r:
                        continue
                    for e in r["edges"]:
                        tgt = inst.get(e[2])
                        if tgt is None or e[2] in seen:
                            continue
                        seen.add(e[2])
                        if tgt.get("ext"):
                            stack.append(e[2])
                        else:
                            out.add(norm(tgt["key"]))
                memo[i0] = out
                return out
            for r in inst.values():
                if r.get("ext"):
                    continue
                k = norm(r["key"])
                fn = self.fns.get(k)
                if fn is None:
                    continue
                for e in r["edges"]:
                    tgt = inst.get(e[2])
                    if tgt is None or not tgt.get("ext") or e[6] not in ("call", "reify"):
                        continue
                    bi = e[0]
                    if bi >= len(fn["blocks"]) or fn["blocks"][bi]["term"]["k"] != "call":
                        continue
                    t = fn["blocks"][bi]["term"]
                    got = {x for x in ext_reach(e[2]) if x in self.fns and x != k}
                    if got:
                        cur = set(t.get("bridged", ()))
                        new = cur | got
                        if new != cur:
                            t["bridged"] = sorted(new)
        for fn in self.fns.values():
            for b in fn["blocks"]:
                if b["term"]["k"] == "call":
                    self.n_bridged += len(b["term"].get("bridged", ()))

    # ---------------------------------------------------------------- lookup helpers
    def fn(self, key):
        return self.fns.get(key)

    def find(self, pat):
        rx = re.compile(pat)
        return sorted(k for k in self.fns if rx.search(k))

    def closures_of(self, key):
        return sorted(k for k, f in self.fns.items() if f.get("parent") == key and f["kind"] == "Closure")

    def calls(self, key):
        fn = self.fns[key]
        for bi, b in enumerate(fn["blocks"]):
            if b["term"]["k"] == "call" and not b["cleanup"]:
                yield bi, b["term"]


def callee_names(t):
    return t.get("names") or [x for x in (t.get("nresolved"), t.get("ncallee")) if x]


def call_matches(t, rx):
    return any(rx.search(n) for n in callee_names(t))


def loc(t):
    s = t.get("span") or {}
    f = s.get("file", "?")
    if f.startswith("/repo/"):
        f = f[6:]
    return "%s:%s" % (f, s.get("lo", "?"))


def fn_loc(fn):
    s = fn.get("span") or {}
    return "%s:%s" % (s.get("file", "?"), s.get("lo", "?"))


# ---------------------------------------------------------------------- helper extraction is not a change
def _remap_place(pl, lo):
    return {"l": pl["l"] + lo, "p": [({"idx": p["idx"] + lo} if isinstance(p, dict) and "idx" in p else p) for p in pl["p"]]}


def _remap_op(o, lo):
    if o and o.get("k") in ("copy", "move"):
        return {"k": o["k"], "pl": _remap_place(o["pl"], lo)}
    return o


def _remap_rv(rv, lo):
    out = dict(rv)
    for f in ("a", "b"):
        if isinstance(out.get(f), dict) and "k" in out[f]:
            out[f] = _remap_op(out[f], lo)
    if "pl" in out:
        out["pl"] = _remap_place(out["pl"], lo)
    if "ops" in out:
        out["ops"] = [_remap_op(o, lo) for o in out["ops"]]
    return out


def inline_call(f, bi, g):
    """Replaces the call terminator of block `bi` of `f` by the body of `g` (locals and blocks renumbered; parameters assigned from the
    argument operands; every `return` of g assigns the call's destination and continues at the call's target)."""
    t = f["blocks"][bi]["term"]
    lo, bo = len(f["locals"]), len(f["blocks"])
    f["locals"] = f["locals"] + g["locals"]
    names = dict(f.get("names") or {})
    for l, n in (g.get("names") or {}).items():
        names[str(int(l) + lo)] = n
    f["names"] = names
    line = (t.get("span") or {}).get("lo")
    pre = []
    for i, a in enumerate(t["args"][:g["argc"]]):
        pre.append({"k": "assign", "dst": {"l": lo + 1 + i, "p": []}, "rv": {"r": "use", "a": a}, "line": line})
    cont = t["t"]
    for b in g["blocks"]:
        nb = {"cleanup": b["cleanup"], "st": []}
        for st in b["st"]:
            if st["k"] == "assign":
                nb["st"].append({"k": "assign", "dst": _remap_place(st["dst"], lo), "rv": _remap_rv(st["rv"], lo), "line": st.get("line")})
            elif st["k"] == "dead":
                nb["st"].append({"k": "dead", "l": st["l"] + lo})
            elif st["k"] == "setdiscr":
                s2 = dict(st)
                if "pl" in s2:
                    s2["pl"] = _remap_place(s2["pl"], lo)
                nb["st"].append(s2)
            else:
                nb["st"].append(st)
        bt = b["term"]
        k = bt["k"]
        if k == "return":
            nb["st"].append({"k": "assign", "dst": t["dst"], "rv": {"r": "use", "a": {"k": "move", "pl": {"l": lo, "p": []}}}, "line": line})
            nt = {"k": "goto", "t": cont} if cont is not None and cont >= 0 else {"k": "unreachable"}
        elif k == "goto":
            nt = {"k": "goto", "t": bt["t"] + bo}
        elif k == "switch":
            nt = dict(bt)
            nt["d"] = _remap_op(bt["d"], lo)
            nt["arms"] = [[v, x + bo] for v, x in bt["arms"]]
            nt["else"] = bt["else"] + bo
        elif k == "call":
            nt = dict(bt)
            nt["args"] = [_remap_op(a, lo) for a in bt["args"]]
            nt["dst"] = _remap_place(bt["dst"], lo)
            nt["t"] = bt["t"] + bo if bt["t"] is not None and bt["t"] >= 0 else bt["t"]
            if isinstance(bt.get("indirect"), dict):
                nt["indirect"] = _remap_op(bt["indirect"], lo)
        elif k == "assert":
            nt = dict(bt)
            nt["cond"] = _remap_op(bt["cond"], lo)
            nt["t"] = bt["t"] + bo
        elif k == "drop":
            nt = dict(bt)
            nt["pl"] = _remap_place(bt["pl"], lo)
            nt["t"] = bt["t"] + bo
        else:
            nt = dict(bt)
        nb["term"] = nt
        f["blocks"].append(nb)
    f["blocks"][bi]["st"] = f["blocks"][bi]["st"] + pre
    f["blocks"][bi]["term"] = {"k": "goto", "t": bo}


def absorb_new_functions(F, known):
    """Functions that did not exist on the reviewed tree (`known` = its function keys) are private helpers extracted by a later change (or
    renamed functions): their bodies are inlined into their callers, so that every rule sees the same code whether or not a block of a
    function was moved into a helper. A new function that is recursive, virtual-only or too deep stays as it is."""
    known = set(known)
    new = {k for k, fn in F.fns.items() if k not in known and fn["kind"] != "Closure" and not re.search(r"#\d+$", k)}
    new = {k for k in new if not any(n == k for _b, t in F.calls(k) for n in callee_names(t))}  # not directly recursive
    if not new:
        return []
    absorbed = set()
    for _round in range(3):
        changed = False
        for k, fn in list(F.fns.items()):
            bi = 0
            while bi < len(fn["blocks"]) and len(fn["blocks"]) < 4000:
                b = fn["blocks"][bi]
                t = b["term"]
                if t["k"] == "call" and not b["cleanup"] and not t.get("virtual"):
                    g = next((n for n in callee_names(t) if n in new and n != k), None)
                    if g is not None and len(t["args"]) == F.fns[g]["argc"]:
                        import cfg as _cfg
                        kind = _cfg.success_edges(fn, bi)[1]
                        bo = len(fn["blocks"])
                        gerr = _cfg.error_exit_blocks(F.fns[g]) if _cfg.is_result_ty(F.fns[g]["locals"][0]["s"]) else ()
                        inline_call(fn, bi, F.fns[g])
                        if kind in ("try", "plain-return"):
                            # the helper's Err is propagated unchanged by the caller: the helper's error exits are error exits of the caller
                            fn["_errx_inlined"] = sorted(set(fn.get("_errx_inlined", ())) | {x + bo for x in gerr})
                        for cache in ("_errx", "_live", "_defs", "_uses", "_succ", "_pred", "_guards"):
                            fn.pop(cache, None)
                        for c, cf_ in F.fns.items():
                            if cf_.get("parent") == g:
                                cf_["parent"] = k
                        fn.pop("_guards", None)
                        absorbed.add(g)
                        changed = True
                bi += 1
        if not changed:
            break
    F.absorbed_fns = {g: F.fns[g] for g in absorbed}
    for g in absorbed:
        F.fns.pop(g, None)
        for c in F.by_crate.values():
            if g in c:
                c.remove(g)
    callers = collections.defaultdict(list)
    for k, fn in F.fns.items():
        for bi, b in enumerate(fn["blocks"]):
            t = b["term"]
            if t["k"] == "call" and not b["cleanup"]:
                for name in t.get("names", []):
                    callers[name].append((k, bi))
    F.callers = dict(callers)
    F.absorbed = sorted(absorbed)
    return F.absorbed
