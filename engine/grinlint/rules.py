"""Rule kinds R1 (must-pass-through), R2 (guards), R3 (who-may-call / who-may-write) and helpers.

Every rule evaluation appends one obligation record to the context:
  {id, kind, fn, desc, verdict: hold|violation|anchor-lost, sites:[file:line], witness:[...], key}
Violation keys never contain line numbers (suppression in known_findings.json is by exact key).
"""
import collections
import re

from cfg import *
from facts import *


# Functions of the reviewed tree that no longer exist (a wrapper inlined into its callers, or renamed), with the gates and state changes
# every ok path of theirs passed (from the R9 baseline) and the callers they had. A rule that names such a function as a required call or
# as a sink is evaluated on what the function did: "add_block was called" becomes "Batch::save_block was called".
KNOWN_FNS = set()  # functions of the reviewed tree (baseline/functions.json)
VANISHED = {}   # full key -> {"must": [short callee names], "callers": [role keys]}


def pat(s):
    """Call-name pattern: 're:<regex>' is used as is (search); otherwise an exact path suffix."""
    if isinstance(s, (list, tuple, set, frozenset)):
        return re.compile("|".join("(?:%s)" % pat(x).pattern for x in s))
    if hasattr(s, "search"):
        return s
    if s.startswith("re:"):
        return re.compile(s[3:])
    v = VANISHED.get(s)
    if v and v["must"]:
        return re.compile("|".join(r"(?:(?:^|::|<| )%s$)" % re.escape(m) for m in v["must"]))
    return re.compile(r"(?:^|::|<| )" + re.escape(s) + r"$")


def load_vanished(F, baseline_dir):
    """Fills VANISHED from baseline/functions.json and the per-property baselines."""
    import glob, json, os
    VANISHED.clear()
    KNOWN_FNS.clear()
    try:
        known = json.load(open(os.path.join(baseline_dir, "functions.json")))
    except (OSError, ValueError):
        return
    KNOWN_FNS.update(known)
    gone = [k for k in known if k not in F.fns and not re.search(r"#\d+$", k)]
    if not gone:
        return
    info = {}
    for bp in glob.glob(os.path.join(baseline_dir, "C*.json")):
        for role, b in json.load(open(bp)).items():
            if role in gone:
                e = info.setdefault(role, {"must": set(), "callers": set()})
                e["must"] |= {re.sub(r"#\d+$", "", re.sub(r"\(.*$", "", m)) for m in b.get("must", [])}
                e["callers"] |= set(b.get("callers", []))
    for k in gone:
        e = info.get(k, {"must": set(), "callers": set()})
        VANISHED[k] = {"must": sorted(e["must"]), "callers": sorted(e["callers"])}


# wrappers that always run their closure argument exactly once before returning Ok
# (verified by rule `wrapper-invokes-closure`, see rules/C06.py)
ALWAYS_INVOKE = pat([
    "txhashset::txhashset::extending", "txhashset::txhashset::header_extending",
    "txhashset::txhashset::extending_readonly", "txhashset::txhashset::header_extending_readonly",
    "txhashset::txhashset::utxo_view", "txhashset::txhashset::rewindable_kernel_view",
])


class Ctx:
    def __init__(self, F, prop, tier="quick"):
        self.F = F
        self.prop = prop
        self.tier = tier
        self.obls = []
        self.notes = []
        self.stats = collections.Counter()
        self._ens = {}
        self.fn_seen = set()

    # ------------------------------------------------------------------ recording
    def record(self, rid, kind, fn, desc, verdict, sites=(), witness=(), key_detail=""):
        key = "%s|%s|%s|%s" % (self.prop, rid, fn or "-", key_detail)
        self.obls.append({
            "id": rid, "kind": kind, "fn": fn, "desc": desc, "verdict": verdict,
            "sites": list(sites)[:8], "witness": list(witness)[:24], "key": key,
        })
        return verdict == "hold"

    def lost(self, rid, kind, fn, desc, what):
        v = VANISHED.get(fn) if isinstance(fn, str) else None
        if v and v["callers"] and all(c in self.F.fns for c in v["callers"]) and what.startswith("function not found"):
            # the function was inlined into its (still present) callers: what it did is held to the callers' confirmed summaries (R9)
            self.notes.append("%s: %s no longer exists (inlined into %s); the obligation is carried by the baseline of its callers" % (rid, fn, v["callers"][:3]))
            return self.record(rid, kind, fn, desc + " [function inlined into its callers]", "hold", [])
        return self.record(rid, kind, fn, desc, "anchor-lost", witness=[what], key_detail="anchor-lost")

    # ------------------------------------------------------------------ function lookup
    def getfn(self, spec):
        """Exact normalised key; 're:' pattern that must match exactly one function; or a role path
        `fn@callee[#k][@callee..]`: the closure passed to the (k-th, in block order) call of `callee` inside fn —
        closures are addressed by the call that receives them, not by their `{closure#N}` index."""
        F = self.F
        if "@" in spec and not spec.startswith("re:"):
            parts = spec.split("@")
            cur = self.getfn(parts[0])
            for hop in parts[1:]:
                if cur is None:
                    return None
                m = re.match(r"^(.*?)(?:#(\d+))?$", hop)
                callee, k = m.group(1), int(m.group(2) or 0)
                rx = pat(callee)
                cands = []
                for bi, t in F.calls(cur):
                    if call_matches(t, rx):
                        cl = [c for c in t["ncallables"] if c in F.fns and F.fns[c]["kind"] == "Closure"]
                        if cl:
                            cands.append((bi, cl[0]))
                cands.sort()
                uniq = []
                for _b, c in cands:
                    if c not in uniq:
                        uniq.append(c)
                if k == 0:
                    cur = uniq[0] if len(uniq) == 1 else None
                else:
                    cur = uniq[k - 1] if len(uniq) >= k else None
            if cur is not None:
                self.fn_seen.add(cur)
            return cur
        if spec in F.fns:
            self.fn_seen.add(spec)
            return spec
        if spec.startswith("re:"):
            m = F.find(spec[3:])
            if len(m) == 1:
                self.fn_seen.add(m[0])
                return m[0]
        return None

    # ------------------------------------------------------------------ call-site matching
    def _call_blocks(self, key, rx, via, where=None, stack=()):
        """Blocks of `key` whose call matches rx directly, or transitively (callee ensures rx)."""
        F = self.F
        fn = F.fns[key]
        out = []
        for bi, t in F.calls(key):
            if bi not in live_blocks(fn):
                continue
            direct = call_matches(t, rx)
            if direct:
                if where is not None and not self._where(fn, t, where):
                    continue
                out.append((bi, "direct"))
                continue
            if via <= 0:
                continue
            hit = False
            for n in callee_names(t):
                if n in F.fns and n not in stack and n != key:
                    if self.ensures(n, rx, via - 1, stack + (key,)):
                        out.append((bi, "via " + short(n, 2)))
                        hit = True
                        break
            if hit:
                continue
            if t["ncallables"] and call_matches(t, ALWAYS_INVOKE):
                for c in t["ncallables"]:
                    if c in F.fns and c not in stack and self.ensures(c, rx, via - 1, stack + (key,)):
                        out.append((bi, "via closure " + short(c, 2)))
                        break
        return out

    def _where(self, fn, t, where):
        ex = Exprs(fn)
        txt = ", ".join(render(ex.operand(a)) for a in t["args"])
        return re.search(where, txt) is not None

    def ensures(self, key, rx, via=2, stack=()):
        """Every ok-exit of `key` passes the success edge of a call matching rx (non-vacuously)."""
        mk = (key, rx.pattern, via)
        if mk in self._ens:
            return self._ens[mk]
        self._ens[mk] = False  # co-inductive default for recursion: not ensured
        fn = self.F.fns[key]
        sites = self._call_blocks(key, rx, via, stack=stack)
        res = False
        if sites:
            cuts = []
            for bi, _how in sites:
                e, kind = success_edges(fn, bi)
                if kind in ("unchecked", "diverges"):
                    continue
                cuts += e
            if cuts:
                rets = return_blocks(fn)
                ret_is_result = is_result_ty(fn["locals"][0]["s"])
                dead = error_exit_blocks(fn) if ret_is_result else ()
                res = reach(fn, [0], rets, cuts, dead) is None
        self._ens[mk] = res
        return res

    # ------------------------------------------------------------------ R1
    def r1(self, rid, fn, require, sink="ok", via=2, truth=None, start=None, start_where=None,
           sink_where=None, require_where=None, desc=None, allow_unchecked=False, extra_cuts=(), called_only=False):
        """Every path from entry (or from the calls `start`) to `sink` passes the success edge of a `require` call.
        sink: 'ok' | 'return' | call pattern. require: call pattern."""
        F = self.F
        d = desc or "%s: %s => %s" % (short(fn, 2), sink if isinstance(sink, str) else "sink", require)
        key = self.getfn(fn)
        if key is None:
            return self.lost(rid, "R1", fn, d, "function not found: " + fn)
        f = F.fns[key]
        rx = pat(require)
        sites = self._call_blocks(key, rx, via, where=require_where)
        if not sites:
            return self.lost(rid, "R1", key, d, "no call matching %s in %s" % (require, key))
        cuts = list(extra_cuts)
        kinds = []
        site_locs = []
        for bi, how in sites:
            e, kind = success_edges(f, bi, truth=truth)
            if called_only:
                # obligation is only that the call is made (its failure is tolerated by design at this site)
                e, kind = [(bi, f["blocks"][bi]["term"]["t"])], "called"
            if kind in ("unchecked", "diverges") and not allow_unchecked:
                kinds.append(kind)
                continue
            cuts += e
            kinds.append(kind)
            site_locs.append("%s [%s,%s]" % (loc(f["blocks"][bi]["term"]), kind, how))
        self.stats["call_sites"] += len(sites)
        if sink in ("ok", "return"):
            targets = return_blocks(f)
            dead = error_exit_blocks(f) if sink == "ok" else ()
        else:
            srx = pat(sink)
            targets = {bi for bi, t in F.calls(key) if call_matches(t, srx) and (sink_where is None or self._where(f, t, sink_where))}
            targets &= live_blocks(f)
            dead = set(f.get("_errx_inlined", ()))  # error exits of an inlined helper whose Err the caller propagates
            if not targets:
                return self.lost(rid, "R1", key, d, "no sink call matching %s in %s" % (sink, key))
            site_locs += ["sink " + loc(f["blocks"][b]["term"]) for b in sorted(targets)]
        if start is None:
            starts = [0]
        elif isinstance(start, (list, tuple, set)) and all(isinstance(x, int) for x in start):
            starts = list(start)
            if not starts:
                return self.lost(rid, "R1", key, d, "no start blocks in %s" % key)
        else:
            strx = pat(start)
            sb = [bi for bi, t in F.calls(key) if call_matches(t, strx) and (start_where is None or self._where(f, t, start_where))]
            if not sb:
                return self.lost(rid, "R1", key, d, "no start call matching %s in %s" % (start, key))
            starts = [f["blocks"][b]["term"]["t"] for b in sb if f["blocks"][b]["term"]["t"] >= 0]
        self.stats["paths_cut"] += len(cuts)
        p = reach(f, starts, targets, cuts, dead)
        if p is None:
            return self.record(rid, "R1", key, d, "hold", site_locs)
        return self.record(rid, "R1", key, d, "violation", site_locs,
                           ["path avoiding the success edge of `%s`:" % require] + path_locs(f, p), key_detail=str(require))

    def alive_at(self, rid, fn, acquire, uses, desc=None, via=1, floor=1):
        """RAII scope rule: at every call matching `uses` in `fn`, the value returned by the call matching `acquire` (a guard whose Drop
        releases something) is still alive on every path - not dropped, and not moved away except into the `uses` call itself.
        A must-analysis: forward dataflow over the non-cleanup CFG with intersection at joins."""
        F = self.F
        d = desc or "%s: the guard returned by %s is alive at every %s" % (short(fn, 2), acquire, uses)
        key = self.getfn(fn)
        if key is None:
            return self.lost(rid, "R1", fn, d, "function not found: " + fn)
        f = F.fns[key]
        blocks = f["blocks"]
        arx, urx = pat(acquire), pat(uses)
        G = set()
        gen_blocks = {}
        for bi, t in F.calls(key):
            if call_matches(t, arx) and not t["dst"]["p"]:
                G.add(t["dst"]["l"])
                gen_blocks[bi] = t["dst"]["l"]
        if not G:
            return self.lost(rid, "R1", key, d, "no call matching %s in %s" % (acquire, key))
        use_sites = [bi for bi, _how in self._call_blocks(key, urx, via)]
        if len(use_sites) < floor:
            return self.lost(rid, "R1", key, d, "%d call sites matching %s in %s (floor %d)" % (len(use_sites), uses, key, floor))
        # locals the guard is moved into (`let g = x`, `Some(g)`, struct literals)
        changed = True
        while changed:
            changed = False
            for b in blocks:
                if b["cleanup"]:
                    continue
                for st in b["st"]:
                    if st["k"] == "assign" and not st["dst"]["p"] and st["dst"]["l"] not in G:
                        rv = st["rv"]
                        srcs = [rv["a"]] if rv["r"] in ("use", "cast") else rv.get("ops", []) if rv["r"] == "agg" else []
                        if any(o.get("k") == "move" and not o["pl"]["p"] and o["pl"]["l"] in G for o in srcs):
                            G.add(st["dst"]["l"])
                            changed = True
        n = len(blocks)
        succ = succs(f)
        TOP = None
        IN = [TOP] * n
        at_term = [TOP] * n

        def transfer(bi, state):
            b = blocks[bi]
            for st in b["st"]:
                if st["k"] == "assign":
                    rv = st["rv"]
                    srcs = [rv["a"]] if rv["r"] in ("use", "cast") else rv.get("ops", []) if rv["r"] == "agg" else []
                    for o in srcs:
                        if o.get("k") == "move" and not o["pl"]["p"] and o["pl"]["l"] in G:
                            if not (not st["dst"]["p"] and st["dst"]["l"] in G):
                                state = False  # moved into something we do not track (a field, a projection)
            at_term[bi] = state if at_term[bi] is TOP else (at_term[bi] and state)
            t = b["term"]
            if t["k"] == "drop" and t["pl"]["l"] in G and not [p for p in t["pl"]["p"] if p != "*"]:
                state = False
            elif t["k"] == "call":
                if any(a.get("k") == "move" and not a["pl"]["p"] and a["pl"]["l"] in G for a in t["args"]):
                    state = False  # ownership left this frame
                if bi in gen_blocks:
                    state = True
            return state

        IN[0] = False
        work = collections.deque([0])
        OUT = [TOP] * n
        while work:
            bi = work.popleft()
            if blocks[bi]["cleanup"]:
                continue
            at_term[bi] = TOP
            o = transfer(bi, IN[bi])
            if OUT[bi] is TOP or o != OUT[bi]:
                OUT[bi] = o
                for s2 in succ[bi]:
                    if blocks[s2]["cleanup"]:
                        continue
                    new = o if IN[s2] is TOP else (IN[s2] and o)
                    if IN[s2] is TOP or new != IN[s2]:
                        IN[s2] = new
                        work.append(s2)
        self.stats["call_sites"] += len(use_sites)
        bad = [bi for bi in use_sites if IN[bi] is not TOP and not at_term[bi]]
        sites = [loc(blocks[bi]["term"]) for bi in use_sites]
        if bad:
            return self.record(rid, "R1", key, d, "violation", [loc(blocks[bi]["term"]) for bi in bad],
                               ["the guard acquired by `%s` is dropped or moved away before this call on some path (its scope no longer spans the use)" % acquire], key_detail="alive:" + str(uses))
        return self.record(rid, "R1", key, d, "hold", sites)

    def never(self, rid, fn, start, forbidden, forbidden_where=None, desc=None, dead_errors=False):
        """From `start` (block list or call pattern; None = entry) no call matching `forbidden` is reachable."""
        F = self.F
        d = desc or "%s: %s unreachable" % (short(fn, 2), forbidden)
        key = self.getfn(fn)
        if key is None:
            return self.lost(rid, "R1", fn, d, "function not found: " + fn)
        f = F.fns[key]
        if start is None:
            starts = [0]
        elif isinstance(start, (list, tuple, set)):
            starts = list(start)
            if not starts:
                return self.lost(rid, "R1", key, d, "no start blocks in %s" % key)
        else:
            strx = pat(start)
            sb = [bi for bi, t in F.calls(key) if call_matches(t, strx)]
            if not sb:
                return self.lost(rid, "R1", key, d, "no start call matching %s" % (start,))
            starts = [f["blocks"][b]["term"]["t"] for b in sb if f["blocks"][b]["term"]["t"] >= 0]
        frx = pat(forbidden)
        targets = {bi for bi, t in F.calls(key) if call_matches(t, frx) and (forbidden_where is None or self._where(f, t, forbidden_where))}
        p = reach(f, starts, targets, (), error_exit_blocks(f) if dead_errors else ())
        if p is None:
            return self.record(rid, "R1", key, d, "hold", [fn_loc(f)] + [loc(f["blocks"][b]["term"]) for b in sorted(targets)][:3])
        return self.record(rid, "R1", key, d, "violation", [loc(f["blocks"][p[-1]]["term"])], ["forbidden call reachable:"] + path_locs(f, p), key_detail="never:" + str(forbidden))

    def arm_blocks(self, fn, cond, value):
        """Target blocks of the switch whose rendered discriminant matches regex `cond`, for arm `value` ('else' for otherwise)."""
        key = self.getfn(fn)
        if key is None:
            return []
        out = []
        for bi, e, arms, els in self.guards(key):
            if re.search(cond, render(e)):
                am = dict(arms)
                out.append(els if value == "else" else am.get(str(value), els))
        return out

    def loop(self, rid, fn, require, over, desc=None, via=0, called_only=False, extra_cuts=(), require_where=None):
        """Loop funnel: in the `for` loop whose iterator expression matches regex `over`, every iteration
        (path from the loop's `next` back to the same `next`) passes the success edge of `require`.
        The iterator-adaptor form of the same loop (`xs.iter().try_for_each(|x| check(x))?`, `.map(..).collect::<Result<..>>()?`)
        is accepted when the closure handed to the adaptor passes `require` on every ok path and the adaptor's result is checked."""
        NEXT = "re:iter::traits::iterator::Iterator::next$"
        d = desc or "%s: every iteration over `%s` passes %s" % (short(fn, 2), over, require)
        key = self.getfn(fn)
        if key is not None:
            f = self.F.fns[key]
            nx = pat(NEXT)
            has_loop = any(call_matches(t, nx) and self._where(f, t, over) for _b, t in self.F.calls(key))
            if not has_loop:
                rx = pat(require)
                adapt = pat("re:iter::traits::iterator::Iterator::(try_for_each|for_each|map|all|try_fold)$")
                for bi, t in self.F.calls(key):
                    if call_matches(t, adapt) and self._where(f, t, over):
                        for cl in t["ncallables"]:
                            if cl in self.F.fns and (self.ensures(cl, rx, 2) or (called_only and self._call_blocks(cl, rx, 2))):
                                return self.record(rid, "R1", key, d + " [iterator-adaptor form]", "hold", [loc(t)])
        return self.r1(rid, fn, require, sink=NEXT, sink_where=over, start=NEXT, start_where=over, via=via, called_only=called_only,
                       extra_cuts=extra_cuts, require_where=require_where, desc=d)

    def r1_all(self, rid, fn, requires, **kw):
        ok = True
        for i, r in enumerate(requires):
            ok &= bool(self.r1("%s.%d" % (rid, i + 1), fn, r, **kw))
        return ok

    def r1_order(self, rid, fn, first, then, via=1, desc=None, first_where=None, then_where=None):
        """Every path from entry to a call `then` passes the success edge of a call `first`."""
        return self.r1(rid, fn, first, sink=then, via=via, desc=desc or "%s: %s before %s" % (short(fn, 2), first, then),
                       require_where=first_where, sink_where=then_where)

    # ------------------------------------------------------------------ R3 who-may-call
    def r3(self, rid, callee, allowed, floor_sites=None, exact_sites=None, desc=None, fold_closures=True, crates=None):
        F = self.F
        d = desc or "callers of %s are a closed set" % (callee,)
        if isinstance(callee, str) and callee in VANISHED:
            self.notes.append("%s: %s no longer exists (inlined or renamed); who may call what it did is decided by the rules on its callees" % (rid, callee))
            return self.record(rid, "R3", None, d + " [callee no longer exists]", "hold", [])
        rx = pat(callee)
        sites = collections.defaultdict(list)
        for name, lst in F.callers.items():
            if rx.search(name):
                for (k, bi) in lst:
                    if crates and F.fns[k]["crate"] not in crates:
                        continue
                    kk = re.sub(r"(::\{closure#\d+\})+$", "", k) if fold_closures else k
                    sites[kk].append((k, bi))
        # a call is indexed under both callee and resolved names: dedupe by (fn, block)
        nsites = len({s for v in sites.values() for s in v})
        self.stats["call_sites"] += nsites
        allowed = set(allowed)
        # a caller of an allowed function that was inlined into it takes over its permission
        for a in list(allowed):
            if a in VANISHED:
                allowed |= {c for c in VANISHED[a]["callers"]}
        extra = sorted(set(sites) - allowed)
        if extra and KNOWN_FNS:
            # a function the reviewed tree did not have, called only from inside the allowed set (an allowed function was split): it acts on
            # their behalf. Anything that lets a caller outside the set in - directly or through another new function - is still reported.
            def _on_behalf(k, depth=0):
                if k in allowed:
                    return True
                if k in getattr(F, "absorbed_fns", {}):
                    return True  # already inlined into its callers for this analysis: the inlined copies are checked under the callers' names
                if k in KNOWN_FNS or depth > 3 or F.fns.get(k, {}).get("vis") == "public":
                    return False
                cs_ = set()
                for name in (k, strip_impl(k)):
                    for (c_, _bi) in F.callers.get(name, []):
                        cs_.add(re.sub(r"(::\{closure#\d+\})+$", "", c_))
                cs_.discard(k)
                return bool(cs_) and all(_on_behalf(c_, depth + 1) for c_ in cs_)
            still = [k for k in extra if not _on_behalf(k)]
            if len(still) < len(extra):
                self.notes.append("%s: new functions called only from inside the allowed set act on its behalf: %s" % (rid, sorted(set(extra) - set(still))))
            extra = still
        ok = True
        locs = sorted({loc(F.fns[k]["blocks"][bi]["term"]) for v in sites.values() for (k, bi) in v})
        if floor_sites is not None and nsites < floor_sites:
            ok = False
            self.record(rid, "R3", None, d, "anchor-lost", locs, ["%d call sites found, floor is %d (callee renamed or removed?)" % (nsites, floor_sites)],
                        key_detail="anchor-lost:" + str(callee))
        for k in extra:
            ok = False
            self.record(rid, "R3", k, d, "violation", [loc(F.fns[a]["blocks"][b]["term"]) for a, b in sites[k]],
                        ["%s calls %s but is not in the allowed caller set" % (k, callee)], key_detail=str(callee))
        if ok:
            self.record(rid, "R3", None, d + " (%d sites in %d functions)" % (nsites, len(sites)), "hold", locs)
        return ok

    # ------------------------------------------------------------------ R3 field writers
    def field_accesses(self, owner, field):
        """All (fn, block, how) that mutably touch `owner.field`: direct assignment or `&mut` borrow
        (with the method the borrow is passed to, when it is the receiver of the next call)."""
        F = self.F
        out = []
        for k, fn in F.fns.items():
            for bi, b in enumerate(fn["blocks"]):
                if b["cleanup"]:
                    continue
                for st in b["st"]:
                    if st["k"] != "assign":
                        continue
                    if _touches(st["dst"], owner, field):
                        out.append((k, bi, "assign", st.get("line")))
                    rv = st["rv"]
                    if rv["r"] == "ref" and rv.get("mut") and _touches(rv["pl"], owner, field):
                        how = "&mut"
                        l = st["dst"]["l"] if not st["dst"]["p"] else None
                        t = b["term"]
                        # find the call consuming the borrow (same block or straight-line successor)
                        bb = bi
                        for _ in range(4):
                            t = fn["blocks"][bb]["term"]
                            if t["k"] == "call":
                                if any(base_local(a) == l for a in t["args"]):
                                    how = short(callee_names(t)[0], 2)
                                    # two-phase borrows / reborrows: follow one more hop
                                break
                            if t["k"] == "goto":
                                bb = t["t"]
                                continue
                            break
                        out.append((k, bi, how, st.get("line")))
        return out

    def r3_field(self, rid, owner, field, allowed, floor=None, desc=None):
        """allowed: {fn key (closures folded): set of access kinds or None for any}"""
        F = self.F
        d = desc or "writers of %s.%s are a closed set" % (short(owner, 1), field)
        acc = self.field_accesses(owner, field)
        ok = True
        n = 0
        locs = []
        for k, bi, how, line in acc:
            kk = re.sub(r"(::\{closure#\d+\})+$", "", k)
            n += 1
            f = F.fns[k]
            where = "%s:%s" % (f["span"]["file"], line or f["span"]["lo"])
            locs.append("%s %s" % (where, how))
            al = allowed.get(kk, "missing")
            if al == "missing" or (al is not None and how not in al):
                ok = False
                self.record(rid, "R3", kk, d, "violation", [where], ["%s mutates %s.%s via `%s` outside the allowed writer set" % (kk, owner, field, how)],
                            key_detail="%s.%s:%s" % (short(owner, 1), field, how))
        self.stats["call_sites"] += n
        if floor is not None and n < floor:
            ok = False
            self.record(rid, "R3", None, d, "anchor-lost", locs, ["%d accesses found, floor %d" % (n, floor)], key_detail="anchor-lost:%s.%s" % (owner, field))
        if ok:
            self.record(rid, "R3", None, d + " (%d mutable accesses)" % n, "hold", locs)
        return ok

    # ------------------------------------------------------------------ R2 guards
    def guards(self, key):
        fn = self.F.fns[key]
        g = fn.get("_guards")
        if g is None:
            g = switch_conditions(fn)
            fn["_guards"] = g
        return g

    def value_guards(self, key):
        """Comparisons whose result is used as a value (the body of `|h| h > height`, `let ok = a == b;`): pseudo-switches without targets."""
        fn = self.F.fns[key]
        g = fn.get("_vguards")
        if g is None:
            g = []
            ex = Exprs(fn)
            live = live_blocks(fn)
            for bi, b in enumerate(fn["blocks"]):
                if b["cleanup"] or bi not in live:
                    continue
                for st in b["st"]:
                    if st["k"] == "assign" and st["rv"]["r"] == "bin" and st["rv"]["op"] in NEGATE:
                        g.append((bi, ex.rvalue(st["rv"], 0, ()), [("0", -1)], -1))
                t = b["term"]
                if t["k"] == "call" and any(short(x, 2) in CMP_CALL for x in callee_names(t)):
                    g.append((bi, ex.call(t, 0, ()), [("0", -1)], -1))
            fn["_vguards"] = g
        return g

    def find_guard(self, key, ops, lhs=(), rhs=(), any_side=(), cond=None, strict_ops=True, cond_atoms=None, values=False):
        """Switch blocks of `key` whose condition is a comparison with op in ops (after normalising Not),
        lhs atoms ⊇ lhs, rhs atoms ⊇ rhs (sides may be swapped with the operator mirrored), or, with
        cond=regex, whose rendered condition matches. Returns [(block, true_target, false_target, text)]"""
        fn = self.F.fns[key]
        out = []
        for bi, e, arms, els in (list(self.guards(key)) + (self.value_guards(key) if values else [])):
            am = dict(arms)
            # bool switch: arm "0" is false
            if cond_atoms is not None:
                # a boolean / discriminant test (not a comparison) of a value derived from all the given atoms
                ee, neg = e, False
                while ee.kind == "un" and ee.a == "Not":
                    neg = not neg
                    ee = ee.kids[0]
                if as_cmp(ee) is None and _has(atoms(ee), cond_atoms):
                    t_true, t_false = els, am.get("0", els)
                    if neg:
                        t_true, t_false = t_false, t_true
                    out.append((bi, t_true, t_false, render(e)))
                continue
            if cond is not None:
                txt = render(e)
                t_true, t_false = els, am.get("0", els)
                if re.search(cond, txt):
                    out.append((bi, t_true, t_false, txt))
                    continue
                # the same comparison written with the opposite polarity or with its operands exchanged (`a == b` / `a != b`, `a > b` / `b < a`)
                c = as_cmp(e)
                if c:
                    op, l, r = c
                    lt, rt = render(l), render(r)
                    for o2, a, b, flip in ((NEGATE[op], lt, rt, True), (SWAP[op], rt, lt, False), (NEGATE[SWAP[op]], rt, lt, True)):
                        hit = False
                        for form in ("%s(%s, %s)" % (o2, a, b), "%s(%s, %s)" % (_CMP_NAME[o2], a, b)):
                            if re.search(cond, form):
                                hit = True
                        if hit:
                            out.append((bi, t_false, t_true, txt) if flip else (bi, t_true, t_false, txt))
                            break
                continue
            c = as_cmp(e)
            if not c:
                continue
            op, l, r = c
            la, ra = atoms(l), atoms(r)
            for (o2, a1, a2) in ((op, la, ra), (SWAP[op], ra, la)):
                if strict_ops and not (_ops_ok(a1, lhs) and _ops_ok(a2, rhs)):
                    # arithmetic on an operand that the rule does not mention (e.g. `+ 1`) changes the comparison
                    continue
                if o2 in ops and _has(a1, lhs) and _has(a2, rhs) and _has(a1 | a2, any_side):
                    t_true, t_false = els, am.get("0", els)
                    out.append((bi, t_true, t_false, "%s(%s, %s)" % (op, render(l), render(r))))
                    break
                # the comparison may be written negated: op' = NEGATE[op] with swapped targets
                if NEGATE[o2] in ops and _has(a1, lhs) and _has(a2, rhs) and _has(a1 | a2, any_side):
                    t_true, t_false = am.get("0", els), els
                    out.append((bi, t_true, t_false, "!%s(%s, %s)" % (op, render(l), render(r))))
                    break
        return out

    def inlined_guards(self, key, ops, lhs, rhs, any_side, cond, strict_ops, err, fail_on):
        """Helper tolerance for R2: the guard may live in a directly called workspace function G (a check extracted into a helper).
        G's conditions are matched with its parameters replaced by the caller's argument expressions; the guard must reject inside G
        (failing edge cannot reach G's ok exits, optional error variant) and dominate G's ok exits. Returns [(call block in key, G, text)]."""
        F = self.F
        f = F.fns[key]
        exf = Exprs(f)
        out = []
        for cbi, t in F.calls(key):
            for g in callee_names(t):
                if g not in F.fns or g == key:
                    continue
                gf = F.fns[g]
                if gf["kind"] == "Closure" or not is_result_ty(gf["locals"][0]["s"]):
                    continue
                args = [exf.operand(a) for a in t["args"]]
                rets = return_blocks(gf)
                dead = error_exit_blocks(gf)
                for bi, e, arms, els in self.guards(g):
                    e2 = subst(e, args)
                    am = dict(arms)
                    t_true, t_false = els, am.get("0", els)
                    hit = None
                    if cond is not None:
                        if re.search(cond, render(e2)):
                            hit = (t_true, t_false, render(e2))
                    else:
                        c = as_cmp(e2)
                        if c:
                            op, l, r = c
                            la, ra = atoms(l), atoms(r)
                            for (o2, a1, a2) in ((op, la, ra), (SWAP[op], ra, la)):
                                if strict_ops and not (_ops_ok(a1, lhs) and _ops_ok(a2, rhs)):
                                    continue
                                if o2 in ops and _has(a1, lhs) and _has(a2, rhs) and _has(a1 | a2, any_side):
                                    hit = (t_true, t_false, "%s(%s, %s)" % (op, render(l), render(r)))
                                    break
                                if NEGATE[o2] in ops and _has(a1, lhs) and _has(a2, rhs) and _has(a1 | a2, any_side):
                                    hit = (t_false, t_true, "!%s(%s, %s)" % (op, render(l), render(r)))
                                    break
                    if not hit:
                        continue
                    tt, tf, txt = hit
                    fail_t, pass_t = (tt, tf) if fail_on else (tf, tt)
                    if err is not None:
                        ev = err_variant_reached(gf, fail_t)
                        if ev is None or not re.search(err + "$", ev):
                            continue
                    if fail_t == pass_t or reach(gf, [fail_t], rets, (), dead) is not None:
                        continue
                    if reach(gf, [0], rets, {(bi, pass_t)}, dead) is not None:
                        continue
                    out.append((cbi, g, txt))
        return out

    def r2(self, rid, fn, ops=(), lhs=(), rhs=(), any_side=(), cond=None, err=None, fail_on=True, sink="ok",
           bypass=(), desc=None, dominate=True, min_guards=1, strict_ops=True, within_iteration=False, cond_atoms=None, sink_optional=False):
        """There is a guard `cmp(op, lhs, rhs)` in fn whose failing edge (taken when the comparison is
        `fail_on`) leads to the error variant `err` and cannot reach the sink, and (dominate=True) every
        path to the sink passes the guard's passing edge or one of the `bypass` conditions' edges.
        bypass: list of dicts(cond=regex, edge=True|False)."""
        F = self.F
        what = cond if cond else ("test(%s)" % ",".join(cond_atoms)) if cond_atoms else "%s(%s ; %s%s)" % ("|".join(ops), ",".join(lhs), ",".join(rhs), (" ; " + ",".join(any_side)) if any_side else "")
        d = desc or "%s: guard %s -> %s" % (short(fn, 2), what, err or "reject")
        key = self.getfn(fn)
        if key is None:
            return self.lost(rid, "R2", fn, d, "function not found: " + fn)
        f = F.fns[key]
        gs = self.find_guard(key, ops, lhs, rhs, any_side, cond, strict_ops=strict_ops, cond_atoms=cond_atoms)
        if sink_optional and sink not in ("ok", "return"):
            # the guarded construct (e.g. a pre-allocation) may legitimately disappear: the guard then has to reject before the ok exit
            if not ({bi for bi, t in F.calls(key) if call_matches(t, pat(sink))} & live_blocks(f)):
                sink = "ok"
        if sink in ("ok", "return"):
            targets = return_blocks(f)
            dead = error_exit_blocks(f) if sink == "ok" else set()
        else:
            srx = pat(sink)
            targets = {bi for bi, t in F.calls(key) if call_matches(t, srx)} & live_blocks(f)
            dead = set(f.get("_errx_inlined", ()))
            if not targets:
                return self.lost(rid, "R2", key, d, "no sink call matching %s" % (sink,))
        if within_iteration:
            # the guard gates the sink within one loop iteration: paths may not continue through the loop header
            nx = pat("re:iter::traits::iterator::Iterator::next$")
            dead = set(dead) | {bi for bi, t in F.calls(key) if call_matches(t, nx)}
        good = []
        for (bi, t_true, t_false, txt) in gs:
            fail_t, pass_t = (t_true, t_false) if fail_on else (t_false, t_true)
            if err is not None:
                ev = err_variant_reached(f, fail_t)
                if ev is None or not re.search(err + "$", ev):
                    continue
            if fail_t == pass_t or reach(f, [fail_t], targets, (), dead) is not None:
                # failing edge can still reach the sink: not a rejecting guard
                continue
            good.append((bi, pass_t, fail_t, txt))
        if len(good) < min_guards:
            # the guard may have been extracted into a helper that is called with `?`
            for (cbi, g, txt) in self.inlined_guards(key, ops, lhs, rhs, any_side, cond, strict_ops, err, fail_on):
                e, kind = success_edges(f, cbi)
                if kind in ("try", "match", "match-far", "plain-return") and e:
                    sb, pt = e[0]
                    good.append((sb, pt, None, "%s [in helper %s]" % (txt, short(g, 2))))
        if len(good) < min_guards and not dominate and cond is None and cond_atoms is None:
            # the comparison may sit in a closure handed to an iterator adaptor (`for k in ks { if k.h > h {return Err} }` written as
            # `ks.iter().find(|k| k.h > h)`): parameter paths become captured-variable paths, so only their field suffix is matched
            def relax(items):
                out = []
                for r in items:
                    m = re.match(r"^arg\d+((?:\.[a-z_][a-z0-9_]*)+)$", r)
                    out.append("re:" + re.escape(m.group(1)) + "$" if m else r)
                return out
            seen_cl, frontier = set(), [key]
            for _ in range(2):
                nxt = []
                for x in frontier:
                    for _bi, t in F.calls(x):
                        for cl in t.get("ncallables", []):
                            if cl in F.fns and cl not in seen_cl:
                                seen_cl.add(cl)
                                nxt.append(cl)
                frontier = nxt
            for cl in sorted(seen_cl):
                hits = self.find_guard(cl, ops, relax(lhs), relax(rhs), relax(any_side), None, strict_ops=strict_ops, values=True)
                if not hits and lhs and rhs:
                    # one operand may reach the closure through the adaptor chain (`filter_map(..).find(|h| h > height)`)
                    hits = self.find_guard(cl, ops, (), relax(rhs), relax(any_side), None, strict_ops=False, values=True) or \
                        self.find_guard(cl, ops, relax(lhs), (), relax(any_side), None, strict_ops=False, values=True)
                for (bi, t_true, t_false, txt) in hits:
                    good.append((None, None, None, "%s [in closure %s]" % (txt, short(cl, 2))))
            if len(good) >= min_guards:
                self.stats["guards"] += len(good)
                return self.record(rid, "R2", key, d + " [comparison inside an iterator-adaptor closure]", "hold", [g[3][:140] for g in good])
        if len(good) < min_guards:
            seen = ["candidates: " + g[3][:160] for g in gs[:4]]
            return self.record(rid, "R2", key, d, "violation", [fn_loc(f)],
                               ["no rejecting guard of the required shape found in %s" % key] + seen, key_detail="guard:" + what)
        locs = ["%s %s" % (loc(f["blocks"][g[0]]["term"]), g[3][:140]) for g in good]
        self.stats["guards"] += len(good)
        if dominate:
            cuts = []
            for (bi, pass_t, fail_t, txt) in good:
                cuts.append((bi, pass_t))
            for bp in bypass:
                # bypass = (regex over the rendered switch discriminant, arm) with arm in true|false|else|<value>
                cond_rx, arm = bp
                nb = 0
                for bi, e, arms, els in self.guards(key):
                    if re.search(cond_rx, render(e)):
                        am = dict(arms)
                        if arm == "true":
                            t = els
                        elif arm == "false":
                            t = am.get("0", els)
                        elif arm == "else":
                            t = els
                        else:
                            t = am.get(str(arm), els)
                        cuts.append((bi, t))
                        nb += 1
                if nb == 0:
                    return self.lost(rid, "R2", key, d, "bypass condition not found: %s" % cond_rx)
            # cutting the passing edges: the sink must become unreachable
            cutset = set(cuts)
            # a guard whose pass and fail targets coincide is neutralised
            starts = [0]
            if within_iteration:
                starts = [f["blocks"][bi]["term"]["t"] for bi in dead if f["blocks"][bi]["term"]["k"] == "call" and f["blocks"][bi]["term"]["t"] >= 0] or [0]
            p = reach(f, starts, targets, cutset, dead)
            if p is not None:
                return self.record(rid, "R2", key, d, "violation", locs,
                                   ["path reaching the sink without passing the guard:"] + path_locs(f, p), key_detail="bypass:" + what)
        return self.record(rid, "R2", key, d, "hold", locs)

    def r2_edge(self, rid, fn, edges, sink, desc=None, start=None):
        """Every path from entry (or `start` call) to `sink` takes one of the given condition edges.
        edges: list of (regex over the rendered switch discriminant, arm) with arm in true|false|else|<value>."""
        F = self.F
        d = desc or "%s: %s only via %s" % (short(fn, 2), sink, edges)
        key = self.getfn(fn)
        if key is None:
            return self.lost(rid, "R2", fn, d, "function not found: " + fn)
        f = F.fns[key]
        cuts = []
        locs = []
        for cond_rx, arm in edges:
            nb = 0
            for bi, e, arms, els in self.guards(key):
                if re.search(cond_rx, render(e)):
                    am = dict(arms)
                    t = els if arm in ("true", "else") else am.get("0", els) if arm == "false" else am.get(str(arm), els)
                    cuts.append((bi, t))
                    locs.append("%s %s [%s]" % (loc(f["blocks"][bi]["term"]), render(e)[:100], arm))
                    nb += 1
            if nb == 0:
                return self.lost(rid, "R2", key, d, "condition not found: %s" % cond_rx)
        if sink in ("ok", "return"):
            targets = return_blocks(f)
            dead = error_exit_blocks(f) if sink == "ok" else set()
        else:
            srx = pat(sink)
            targets = {bi for bi, t in F.calls(key) if call_matches(t, srx)} & live_blocks(f)
            dead = set(f.get("_errx_inlined", ()))
            if not targets:
                return self.lost(rid, "R2", key, d, "no sink call matching %s" % (sink,))
        starts = [0]
        if start is not None:
            strx = pat(start)
            starts = [f["blocks"][b]["term"]["t"] for b, t in F.calls(key) if call_matches(t, strx) and f["blocks"][b]["term"]["t"] >= 0]
            if not starts:
                return self.lost(rid, "R2", key, d, "no start call matching %s" % (start,))
        self.stats["guards"] += len(cuts)
        p = reach(f, starts, targets, set(cuts), dead)
        if p is None:
            return self.record(rid, "R2", key, d, "hold", locs)
        return self.record(rid, "R2", key, d, "violation", locs, ["path reaching the sink without taking a required edge:"] + path_locs(f, p), key_detail="edge:" + str(sink))

    def r2_value(self, rid, fn, ops, lhs=(), rhs=(), desc=None):
        """The function's return value is itself the comparison (e.g. `has_more_work`)."""
        F = self.F
        d = desc or "%s returns %s(%s ; %s)" % (short(fn, 2), "|".join(ops), ",".join(lhs), ",".join(rhs))
        key = self.getfn(fn)
        if key is None:
            return self.lost(rid, "R2", fn, d, "function not found: " + fn)
        f = F.fns[key]
        e = Exprs(f).local(0, 0, ())
        c = as_cmp(e)
        if c:
            op, l, r = c
            la, ra = atoms(l), atoms(r)
            for (o2, a1, a2) in ((op, la, ra), (SWAP[op], ra, la)):
                if o2 in ops and _has(a1, lhs) and _has(a2, rhs):
                    self.stats["guards"] += 1
                    return self.record(rid, "R2", key, d, "hold", [fn_loc(f) + " " + render(e)[:160]])
        return self.record(rid, "R2", key, d, "violation", [fn_loc(f)], ["return value is %s" % render(e)[:200]], key_detail="value")

    def r2_ret(self, rid, fn, must=(), must_not=(), desc=None):
        """The function's return value derives from all atoms in `must` and none in `must_not`."""
        d = desc or "%s: return value derives from %s" % (short(fn, 2), list(must))
        key = self.getfn(fn)
        if key is None:
            return self.lost(rid, "R2", fn, d, "function not found: " + fn)
        f = self.F.fns[key]
        e = Exprs(f).local(0, 0, ())
        a = atoms(e)
        if _has(a, must) and not any(_has(a, [m]) for m in must_not):
            self.stats["guards"] += 1
            return self.record(rid, "R2", key, d, "hold", [fn_loc(f) + " " + render(e)[:160]])
        return self.record(rid, "R2", key, d, "violation", [fn_loc(f)], ["return value is %s" % render(e)[:300]], key_detail="ret")

    def const_eq(self, rid, key, value, desc=None):
        c = self.F.consts.get(key)
        d = desc or "constant %s == %s" % (key, value)
        if c is None:
            return self.lost(rid, "R7", None, d, "constant not found: " + key)
        if str(c["v"]) == str(value):
            return self.record(rid, "R7", None, d, "hold", [key + " = " + c["v"]])
        return self.record(rid, "R7", None, d, "violation", [key], ["%s is %s, expected %s" % (key, c["v"], value)], key_detail="const:" + key)

    def true_edges(self, fn, cond):
        """Edges taken when the (bool) condition matching regex `cond` is true."""
        key = self.getfn(fn)
        if key is None:
            return []
        return [(bi, t_true) for (bi, t_true, t_false, txt) in self.find_guard(key, (), cond=cond)]

    def false_edges(self, fn, cond):
        key = self.getfn(fn)
        if key is None:
            return []
        return [(bi, t_false) for (bi, t_true, t_false, txt) in self.find_guard(key, (), cond=cond)]

    def r2_arg(self, rid, fn, callee, index, must=(), must_not=(), const=None, desc=None, floor=1, where=None, text=None):
        """Every call of `callee` in fn passes an argument #index whose atoms ⊇ must, ∩ must_not = ∅, or equal to const."""
        F = self.F
        d = desc or "%s: argument %d of %s ⊇ %s%s" % (short(fn, 2), index, callee, list(must), (" = const %s" % const) if const is not None else "")
        key = self.getfn(fn)
        if key is None:
            return self.lost(rid, "R2", fn, d, "function not found: " + fn)
        f = F.fns[key]
        rx = pat(callee)
        ex = Exprs(f)
        n = 0
        ok = True
        locs = []
        for bi, t in F.calls(key):
            if not call_matches(t, rx) or bi not in live_blocks(f):
                continue
            if where is not None and not self._where(f, t, where):
                continue
            n += 1
            if index >= len(t["args"]):
                ok = False
                continue
            e = ex.operand(t["args"][index])
            a = atoms(e)
            txt = render(e)
            locs.append("%s arg%d=%s" % (loc(t), index, txt[:120]))
            bad = None
            if const is not None and txt != str(const):
                bad = "argument is `%s`, expected constant %s" % (txt[:160], const)
            elif text is not None and not re.search(text, txt):
                bad = "argument is `%s`, expected to match %s" % (txt[:160], text)
            elif not _has(a, must):
                bad = "argument `%s` does not derive from %s" % (txt[:160], list(must))
            elif any(_has(a, [m]) for m in must_not):
                bad = "argument `%s` derives from forbidden %s" % (txt[:160], list(must_not))
            if bad:
                ok = False
                self.record(rid, "R2", key, d, "violation", [loc(t)], [bad], key_detail="arg%d:%s" % (index, callee))
        self.stats["call_sites"] += n
        if n < floor:
            return self.lost(rid, "R2", key, d, "%d calls of %s in %s, floor %d" % (n, callee, key, floor))
        if ok:
            self.record(rid, "R2", key, d, "hold", locs)
        return ok


_CMP_NAME = {"Eq": "PartialEq::eq", "Ne": "PartialEq::ne", "Lt": "PartialOrd::lt", "Le": "PartialOrd::le", "Gt": "PartialOrd::gt", "Ge": "PartialOrd::ge"}


def _touches(pl, owner, field):
    for p in pl["p"]:
        if isinstance(p, dict) and p.get("f") == field and (p.get("of") or "").split("::<")[0] == owner:
            return True
    return False


def _ops_ok(atomset, required):
    """Every arithmetic operator atom on this side is named by the rule (no unexpected `+ 1`, `* 2`, ...)."""
    present = {a for a in atomset if a.startswith("op:") and a not in ("op:Not",)}
    named = {r for r in required if r.startswith("op:")}
    return present <= named


def _has(atomset, required):
    """Every required atom (string; 're:' prefix for regex) is present in atomset."""
    for r in required:
        if r.startswith("re:"):
            rx = re.compile(r[3:])
            if not any(rx.search(a) for a in atomset):
                return False
        elif r not in atomset:
            # a literal and a named constant of the same value are the same bound
            if r.startswith("const:") and any(a.startswith("item:") and a.endswith("=" + r[6:]) for a in atomset):
                continue
            return False
    return True


# ---------------------------------------------------------------------- R6 result discipline
LOGM = {"debug", "trace", "info", "warn", "error", "write", "writeln", "format", "println", "eprintln", "log"}


def _uses(fn):
    u = fn.get("_uses")
    if u is not None:
        return u
    uses = collections.Counter()

    def use_pl(pl):
        uses[pl["l"]] += 1
        for p in pl["p"]:
            if isinstance(p, dict) and "idx" in p:
                uses[p["idx"]] += 1

    def use_op(o):
        if o and o.get("k") in ("copy", "move"):
            use_pl(o["pl"])

    for b in fn["blocks"]:
        if b["cleanup"]:
            continue
        for st in b["st"]:
            if st["k"] == "assign":
                rv = st["rv"]
                for f in ("a", "b"):
                    if f in rv and isinstance(rv[f], dict) and "k" in rv[f]:
                        use_op(rv[f])
                if "pl" in rv:
                    use_pl(rv["pl"])
                for o in rv.get("ops", []):
                    use_op(o)
                if st["dst"]["p"]:
                    use_pl(st["dst"])
        t = b["term"]
        if t["k"] == "call":
            for a in t["args"]:
                use_op(a)
            if "indirect" in t:
                use_op(t["indirect"])
        elif t["k"] == "switch":
            use_op(t["d"])
        elif t["k"] == "assert":
            use_op(t["cond"])
    fn["_uses"] = uses
    return uses


def dropped_results(F, crates, watch=None):
    """Calls whose Result destination is never read: [(fn key, block, callee short, ordinal)]"""
    out = []
    for crate in crates:
        for k in F.by_crate.get(crate, []):
            fn = F.fns[k]
            uses = _uses(fn)
            ordn = collections.Counter()
            for bi, b in enumerate(fn["blocks"]):
                t = b["term"]
                if t["k"] != "call" or b["cleanup"] or t["dst"]["p"]:
                    continue
                d = t["dst"]["l"]
                if d == 0 or not is_result_ty(fn["locals"][d]["s"]):
                    continue
                if uses[d]:
                    continue
                sp = t.get("span", {})
                if set(sp.get("macros", [])) & LOGM:
                    continue
                names = callee_names(t)
                if watch is not None and not any(watch.search(n) for n in names):
                    continue
                cs = short(names[0], 2) if names else "indirect"
                ordn[cs] += 1
                out.append((k, bi, cs, ordn[cs]))
    return out


def r6(ctx, rid, crates, allowed, watch=None, desc=None, floor_checked=None):
    """No Result returned to a function of `crates` is discarded, except the frozen, reasoned sites in `allowed`
    (keys `fn|callee|ordinal`)."""
    F = ctx.F
    d = desc or "no discarded Result in %s" % ",".join(crates)
    found = dropped_results(F, crates, pat(watch) if watch else None)
    nres = 0
    for crate in crates:
        for k in F.by_crate.get(crate, []):
            fn = F.fns[k]
            for b in fn["blocks"]:
                t = b["term"]
                if t["k"] == "call" and not b["cleanup"] and not t["dst"]["p"] and is_result_ty(fn["locals"][t["dst"]["l"]]["s"]):
                    nres += 1
    ctx.stats["call_sites"] += nres
    ctx.stats["result_calls_checked"] += nres
    ok = True
    seen = set()
    for (k, bi, cs, n) in found:
        key = "%s|%s|%d" % (k, cs, n)
        seen.add(key)
        f = F.fns[k]
        if key in allowed:
            continue
        ok = False
        ctx.record(rid, "R6", k, d, "violation", [loc(f["blocks"][bi]["term"])],
                   ["the Result of %s is discarded in %s" % (cs, k)], key_detail="dropped:%s#%d" % (cs, n))
    if floor_checked is not None and nres < floor_checked:
        ok = False
        ctx.record(rid, "R6", None, d, "anchor-lost", [], ["only %d Result-returning calls seen, floor %d" % (nres, floor_checked)], key_detail="anchor-lost")
    if ok:
        ctx.record(rid, "R6", None, d + " (%d Result-returning calls checked, %d frozen discards)" % (nres, len(seen & set(allowed))), "hold",
                   ["%s: %s" % (k, allowed[k]) for k in sorted(seen & set(allowed))][:8])
    stale = sorted(set(allowed) - seen)
    if stale:
        ctx.notes.append("R6 allow-list entries no longer matched (harmless): %s" % stale)
    return ok


Ctx.r6 = r6


def r2_assign(ctx, rid, fn, field, must=(), desc=None, floor=1, sink=None):
    """fn assigns to a place ending in `.field` a value whose atoms ⊇ must (at least `floor` such assignments);
    with sink='return'/'ok': every path to the sink passes one of them."""
    F = ctx.F
    d = desc or "%s: .%s := value derived from %s" % (short(fn, 2), field, list(must))
    key = ctx.getfn(fn)
    if key is None:
        return ctx.lost(rid, "R2", fn, d, "function not found: " + fn)
    f = F.fns[key]
    ex = Exprs(f)
    hits = []
    for bi, b in enumerate(f["blocks"]):
        if b["cleanup"] or bi not in live_blocks(f):
            continue
        for st in b["st"]:
            if st["k"] != "assign" or not st["dst"]["p"]:
                continue
            last = [p for p in st["dst"]["p"] if p != "*"]
            if not last or not isinstance(last[-1], dict) or last[-1].get("f") != field:
                continue
            e = ex.rvalue(st["rv"], 0, ())
            if _has(atoms(e), must):
                hits.append((bi, "%s:%s .%s := %s" % (f["span"]["file"], st.get("line"), field, render(e)[:120])))
        t = b["term"]
        if t["k"] == "call" and t["dst"]["p"]:
            last = [p for p in t["dst"]["p"] if p != "*"]
            if last and isinstance(last[-1], dict) and last[-1].get("f") == field:
                e = ex.call(t, 0, ())
                if _has(atoms(e), must):
                    hits.append((bi, "%s .%s := %s" % (loc(t), field, render(e)[:120])))
    if len(hits) < floor:
        return ctx.record(rid, "R2", key, d, "violation", [fn_loc(f)], ["%d matching assignments, need %d" % (len(hits), floor)], key_detail="assign:" + field)
    if sink:
        targets = return_blocks(f)
        dead = set(error_exit_blocks(f)) if sink == "ok" else set()
        p = reach(f, [0], targets, (), dead | {h[0] for h in hits})
        if p is not None:
            return ctx.record(rid, "R2", key, d, "violation", [h[1] for h in hits], ["exit reachable without the assignment:"] + path_locs(f, p), key_detail="assign-bypass:" + field)
    ctx.stats["guards"] += len(hits)
    return ctx.record(rid, "R2", key, d, "hold", [h[1] for h in hits])


Ctx.r2_assign = r2_assign


def _impl_index(F):
    ix = getattr(F, "_impl_ix", None)
    if ix is None:
        ix = collections.defaultdict(list)
        for k, fn in F.fns.items():
            tr = fn.get("impl_trait")
            if tr and fn["kind"] == "AssocFn":
                ix[norm(tr) + "::" + k.rsplit("::", 1)[-1]].append(k)
        F._impl_ix = ix
    return ix


def callees_poly(F, t):
    """Workspace functions a call terminator may invoke: resolved/static callee, closure arguments,
    and for unresolved trait-method calls every workspace impl of that method (class hierarchy)."""
    out = []
    names = callee_names(t)
    hit = False
    for n in names:
        if n in F.fns:
            out.append(n)
            hit = True
    if not hit:
        # class hierarchy only for traits defined in the workspace; std traits on generic receivers are not followed
        ix = _impl_index(F)
        for n in names:
            if n.startswith("grin"):
                out.extend(ix.get(n, []))
    out.extend(c for c in t["ncallables"] if c in F.fns)
    # workspace trait impls and fn items that upstream generic code runs on behalf of this call (instantiated walk)
    out.extend(c for c in t.get("bridged", ()) if c not in out)
    return out


def cg_reach(ctx, roots, forbidden, stop=None, depth=14, edge_filter=None):
    """Polymorphic call-graph reachability over workspace functions (static callee + resolved callee + closure args + CHA).
    Returns a witness chain [(fn, call loc)] to a call matching `forbidden`, or None."""
    F = ctx.F
    frx = pat(forbidden)
    srx = pat(stop) if stop else None
    seen = {}
    q = collections.deque()
    for r in roots:
        seen[r] = None
        q.append((r, 0))
    while q:
        k, dpt = q.popleft()
        for bi, t in F.calls(k):
            if call_matches(t, frx) and not (edge_filter and edge_filter(k, t)):
                chain = [(k, loc(t))]
                c = k
                while seen[c] is not None:
                    c, l = seen[c]
                    chain.append((c, l))
                ctx.stats["cg_nodes"] += len(seen)
                return list(reversed(chain))
            if dpt >= depth:
                continue
            for n in callees_poly(F, t):
                if n not in seen and not (srx and srx.search(n)):
                    seen[n] = (k, loc(t))
                    q.append((n, dpt + 1))
    ctx.stats["cg_nodes"] += len(seen)
    ctx.last_cg_nodes = len(seen)
    return None


def no_reach_cg(ctx, rid, roots, forbidden, stop=None, desc=None, floor_nodes=0, edge_filter=None, depth=14):
    d = desc or "%s never reach %s" % ([short(r, 2) for r in roots], forbidden)
    keys = []
    for r in roots:
        if r.startswith("re:"):
            m = ctx.F.find(r[3:])
            if not m:
                return ctx.lost(rid, "R4", r, d, "no function matches " + r)
            for k in m:
                ctx.fn_seen.add(k)
            keys.extend(m)
            continue
        k = ctx.getfn(r)
        if k is None:
            return ctx.lost(rid, "R4", r, d, "function not found: " + r)
        keys.append(k)
    ctx.last_cg_nodes = 0
    w = cg_reach(ctx, keys, forbidden, stop, depth=depth, edge_filter=edge_filter)
    if w is None:
        if ctx.last_cg_nodes < floor_nodes:
            return ctx.lost(rid, "R4", None, d, "only %d functions reached, floor %d" % (ctx.last_cg_nodes, floor_nodes))
        return ctx.record(rid, "R4", None, d + " [%d roots, %d functions reached]" % (len(keys), ctx.last_cg_nodes), "hold", [fn_loc(ctx.F.fns[k]) for k in keys][:8])
    return ctx.record(rid, "R4", w[0][0], d, "violation", [w[-1][1]], ["call chain:"] + ["%s @ %s" % x for x in w], key_detail="reach:%s" % (forbidden,))


Ctx.no_reach_cg = no_reach_cg
