"""R7 reader/writer agreement: op-sequence sets of `Readable::read` and `Writeable::write` per type (level L1).

Each impl is abstracted to the set of acyclic ok-path sequences of primitive serialisation ops, with helper functions and
nested workspace types inlined (bounded depth). Loops are traversed at most once and immediate repetitions collapsed.
Writer paths taken only in hash mode are excluded (there is no reader for them)."""
import collections
import re

from cfg import *
from facts import *

W_OP = re.compile(r"grin_core::ser::Writer::write_(\w+)$")
R_OP = re.compile(r"grin_core::ser::Reader::(read_\w+|expect_u8)$")
NORM_TOK = {
    "fixed_bytes": "fixed", "expect_u8": "u8", "empty_bytes": "empty", "bytes_len_prefix": "bytes", "bytes": "bytes",
}
HASH_TEST = re.compile(r"ser::SerializationMode::is_hash_mode$|Writer::serialization_mode$")


def _tok(name):
    return NORM_TOK.get(name, name)


class Seqs:
    def __init__(self, F, max_paths=3000, max_depth=4):
        self.F = F
        self.max_paths = max_paths
        self.max_depth = max_depth
        self.cache = {}
        self.truncated = set()

    def impl_fn(self, ty, kind):
        tr = "grin_core::ser::Writeable" if kind == "W" else "grin_core::ser::Readable"
        m = "write" if kind == "W" else "read"
        k = "<%s as %s>::%s" % (ty, tr, m)
        return k if k in self.F.fns else None

    def call_op(self, fn, t, kind, depth):
        """Abstract one call: returns ('ops', [alternatives: tuple of tokens]) or None when irrelevant."""
        names = callee_names(t)
        for n in names:
            m = (W_OP if kind == "W" else R_OP).search(n)
            if m:
                tok = _tok(m.group(1).replace("read_", ""))
                if tok == "bytes":
                    # length-prefixed bytes are a u64 followed by that many bytes
                    return [("u64", "fixed")]
                if tok == "empty" and len(t["args"]) > 1 and t["args"][1].get("k") == "const" and "v" in t["args"][1]["v"]:
                    tok = "empty:%s" % t["args"][1]["v"]["v"]
                return [(tok,)]
        if any(re.match(r"^<alloc::vec::Vec<.*> as grin_core::ser::Writeable>::write$", n) for n in names):
            return [("multi",)]
        # nested trait call
        tr = "grin_core::ser::Writeable::write" if kind == "W" else "grin_core::ser::Readable::read"
        if any(n == tr or n.endswith(" as grin_core::ser::Writeable>::write") or n.endswith(" as grin_core::ser::Readable>::read") for n in names):
            target = None
            for n in names:
                if n in self.F.fns and n != tr:
                    target = n
            if target is not None and depth < self.max_depth:
                return sorted(self.fn_seqs(target, kind, depth + 1))
            ty = "?"
            for n in names:
                mm = re.match(r"^<(.*) as grin_core::ser::(Writeable|Readable)>::", n)
                if mm:
                    ty = mm.group(1)
            if ty == "?":
                # generic: use the receiver / destination type
                if kind == "W" and t["args"]:
                    a0 = t["args"][0]
                    if a0.get("k") in ("copy", "move"):
                        ty = _place_ty(fn, a0["pl"])
                elif kind == "R" and not t["dst"]["p"]:
                    ty = fn["locals"][t["dst"]["l"]]["s"]
                    mm = re.match(r"core::result::Result<(.*), grin_core::ser::Error>$", ty)
                    ty = mm.group(1) if mm else ty
            ty = re.sub(r"^&('\w+ )?(mut )?", "", ty)
            return [("T:" + short(ty, 1),)]
        if any(n.endswith("grin_core::ser::read_multi") for n in names):
            return [("multi",)]
        # helper function taking the reader/writer: inline
        for n in names:
            if n in self.F.fns and depth < self.max_depth and self._takes_stream(n, kind):
                return sorted(self.fn_seqs(n, kind, depth + 1))
        return None

    def _takes_stream(self, key, kind):
        fn = self.F.fns[key]
        want = "W" if kind == "W" else "R"
        for i in range(1, fn["argc"] + 1):
            s = fn["locals"][i]["s"]
            if re.match(r"^&(mut )?(W|R|grin_core::ser::(BinWriter|BinReader|BufReader|HashWriter|StreamingReader))\b", s) or re.match(r"^&mut (dyn )?grin_core::ser::(Writer|Reader)", s) or s in ("&mut W", "&mut R"):
                if (kind == "W" and ("W" in s.split()[-1] or "Writer" in s)) or (kind == "R" and ("R" == s.split()[-1] or "Reader" in s)):
                    return True
        return False

    def fn_seqs(self, key, kind, depth=0):
        ck = (key, kind)
        if ck in self.cache:
            return self.cache[ck]
        self.cache[ck] = {("rec:" + short(key, 1),)}
        fn = self.F.fns[key]
        succ = succs(fn)
        dead = error_exit_blocks(fn)
        # edges taken only in hash mode (writers) / skip-pow mode (readers): no counterpart on the other side
        hash_edges = set()
        for bi, e, arms, els in switch_conditions(fn):
            txt = render(e)
            am = dict(arms)
            t_true, t_false = els, am.get("0", els)
            m = re.match(r"^(Not\()?SerializationMode::is_hash_mode\(Writer::serialization_mode\(", txt)
            if m:
                hash_edges.add((bi, t_false if m.group(1) else t_true))
                continue
            # the compared constant is a promoted `&SerializationMode::Hash` / `&DeserializationMode::SkipPow` (the only modes the
            # repository ever compares against; frozen by rule mode-comparisons in rules/C10.py)
            m = re.match(r"^PartialEq::(ne|eq)\((Writer::serialization_mode|Reader::deserialization_mode)\(.*\), (const:|SerializationMode::Hash|DeserializationMode::SkipPow)", txt)
            if m:
                hash_edges.add((bi, t_false if m.group(1) == "ne" else t_true))
        ops = {}
        for bi, b in enumerate(fn["blocks"]):
            t = b["term"]
            if t["k"] == "call" and not b["cleanup"]:
                o = self.call_op(fn, t, kind, depth)
                if o:
                    ops[bi] = o
        res = set()
        count = [0]
        rets = return_blocks(fn)

        def dfs(b, seq, onpath):
            if count[0] > self.max_paths:
                self.truncated.add(key)
                return
            alts = ops.get(b)
            seqs = [seq + a for a in alts] if alts else [seq]
            if b in rets:
                for s in seqs:
                    res.add(s)
                count[0] += 1
                return
            for s2 in succ[b]:
                if s2 in dead or (b, s2) in hash_edges:
                    continue
                if s2 in onpath:
                    continue
                for s in seqs[:40]:
                    dfs(s2, s, onpath | {s2})

        dfs(0, (), {0})
        out = set(res)  # loops are traversed at most once (back edges are not followed), so no collapsing is needed
        self.cache[ck] = out
        return out


def _place_ty(fn, pl):
    """Type of a place as far as the facts know it: the local's type, or the declared type of the last named field."""
    ty = fn["locals"][pl["l"]]["s"]
    fields = [p for p in pl["p"] if isinstance(p, dict) and "f" in p]
    if not fields:
        return ty
    return "field:" + fields[-1]["f"]


def collapse(seq):
    """Collapse immediate repetitions of a token or of a short sub-sequence (loop bodies traversed once or twice)."""
    out = list(seq)
    changed = True
    while changed:
        changed = False
        for w in (1, 2, 3, 4):
            i = 0
            while i + 2 * w <= len(out):
                if out[i:i + w] == out[i + w:i + 2 * w]:
                    del out[i + w:i + 2 * w]
                    changed = True
                else:
                    i += 1
    return tuple(out)


def types_with_both(F):
    tys = collections.defaultdict(dict)
    for k, fn in F.fns.items():
        tr = fn.get("impl_trait", "")
        if tr in ("grin_core::ser::Writeable", "grin_core::ser::Readable") and fn["kind"] == "AssocFn":
            m = k.rsplit("::", 1)[-1]
            if (tr.endswith("Writeable") and m == "write") or (tr.endswith("Readable") and m == "read"):
                ty = re.match(r"^<(.*) as grin_core::ser::", k)
                if ty:
                    tys[ty.group(1)]["W" if m == "write" else "R"] = k
    return tys
