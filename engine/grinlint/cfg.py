"""CFG utilities, result-flow model and expression (origin) trees over mirfacts function records."""
import collections
import re

from facts import callee_names, loc, norm, short

# ------------------------------------------------------------------------------------------- CFG


def succs(fn):
    s = fn.get("_succ")
    if s is not None:
        return s
    blocks = fn["blocks"]
    succ = [[] for _ in blocks]
    for bi, b in enumerate(blocks):
        t = b["term"]
        k = t["k"]
        if k == "goto":
            succ[bi] = [t["t"]]
        elif k == "switch":
            succ[bi] = [a[1] for a in t["arms"]] + [t["else"]]
        elif k in ("drop", "assert"):
            succ[bi] = [t["t"]]
        elif k == "call" and t["t"] >= 0:
            succ[bi] = [t["t"]]
        elif k == "other":
            # FalseEdge / FalseUnwind / Yield … are removed before optimized_mir; keep conservative: none
            succ[bi] = []
    # never follow into cleanup blocks, never out of unreachable
    for bi in range(len(blocks)):
        succ[bi] = [x for x in succ[bi] if not blocks[x]["cleanup"]]
    fn["_succ"] = succ
    return succ


def preds(fn):
    p = fn.get("_pred")
    if p is None:
        p = [[] for _ in fn["blocks"]]
        for b, ss in enumerate(succs(fn)):
            for s in ss:
                p[s].append(b)
        fn["_pred"] = p
    return p


def reach(fn, starts, targets, cut_edges=(), dead=()):
    """BFS; returns a witness path (list of blocks) from some start to some target, or None."""
    succ = succs(fn)
    cut = set(cut_edges)
    dead = set(dead)
    seen = {}
    q = collections.deque()
    for s in starts:
        if s in dead or s in seen:
            continue
        seen[s] = None
        q.append(s)
    while q:
        b = q.popleft()
        if b in targets:
            path = [b]
            while seen[path[-1]] is not None:
                path.append(seen[path[-1]])
            return list(reversed(path))
        for s in succ[b]:
            if (b, s) in cut or s in dead:
                continue
            if s not in seen:
                seen[s] = b
                q.append(s)
    return None


def reachable_set(fn, starts, cut_edges=(), dead=()):
    succ = succs(fn)
    cut = set(cut_edges)
    dead = set(dead)
    seen = set()
    q = collections.deque()
    for s in starts:
        if s not in dead and s not in seen:
            seen.add(s)
            q.append(s)
    while q:
        b = q.popleft()
        for s in succ[b]:
            if (b, s) in cut or s in dead or s in seen:
                continue
            seen.add(s)
            q.append(s)
    return seen


def live_blocks(fn):
    lb = fn.get("_live")
    if lb is None:
        lb = reachable_set(fn, [0])
        fn["_live"] = lb
    return lb


def return_blocks(fn):
    live = live_blocks(fn)
    return {bi for bi, b in enumerate(fn["blocks"]) if b["term"]["k"] == "return" and bi in live}


def path_locs(fn, path):
    out = []
    for b in path:
        t = fn["blocks"][b]["term"]
        if "span" in t:
            l = loc(t)
            if not out or out[-1] != l:
                out.append(l)
    return out


# ------------------------------------------------------------------------------ local helpers


def local_of(op):
    if op and op.get("k") in ("copy", "move") and not op["pl"]["p"]:
        return op["pl"]["l"]
    return None


def base_local(op):
    if op and op.get("k") in ("copy", "move"):
        return op["pl"]["l"]
    return None


def defs_of(fn):
    d = fn.get("_defs")
    if d is not None:
        return d
    d = collections.defaultdict(list)
    for bi, b in enumerate(fn["blocks"]):
        if b["cleanup"]:
            continue
        for st in b["st"]:
            if st["k"] == "assign" and not st["dst"]["p"]:
                d[st["dst"]["l"]].append(("st", bi, st["rv"]))
        t = b["term"]
        if t["k"] == "call" and not t["dst"]["p"]:
            d[t["dst"]["l"]].append(("call", bi, t))
    fn["_defs"] = d
    return d


def is_result_ty(s):
    return bool(re.match(r"(core|std)::result::Result<", s))


# ------------------------------------------------------------------------------ result flow

PASS_THROUGH = re.compile(r"core::result::Result::(map_err|map|and_then|or_else|and|inspect_err|inspect)$")
CONV_THROUGH = re.compile(r"core::convert::(Into::into|From::from)$|core::result::Result::(as_ref|as_mut)$")


def _switch_after(fn, start, want_local, kind):
    """From block `start`, follow gotos to a switch whose discriminant derives from want_local.
    kind: 'discr' (switch on discriminant(local)), 'bool' (switch directly on bool local, maybe negated).
    Returns (switch_block, {value: target}, else_target, negated) or None."""
    blocks = fn["blocks"]
    b = start
    for _ in range(6):
        blk = blocks[b]
        t = blk["term"]
        if t["k"] == "goto":
            b = t["t"]
            continue
        if t["k"] == "switch":
            d = local_of(t["d"])
            neg = False
            src = None
            # find the defining statement of the discriminant within this block
            cur = d
            for st in reversed(blk["st"]):
                if st["k"] == "assign" and not st["dst"]["p"] and st["dst"]["l"] == cur:
                    rv = st["rv"]
                    if rv["r"] == "discr":
                        src = ("discr", rv["pl"]["l"], rv["pl"]["p"])
                        break
                    if rv["r"] == "un" and rv["op"] == "Not":
                        neg = not neg
                        cur = local_of(rv["a"])
                        continue
                    if rv["r"] == "use" and local_of(rv["a"]) is not None:
                        cur = local_of(rv["a"])
                        continue
                    break
            arms = {a[0]: a[1] for a in t["arms"]}
            if kind == "discr" and src and src[1] == want_local and not [p for p in src[2] if p != "*"]:
                return b, arms, t["else"], False
            if kind == "bool" and src is None and cur == want_local:
                return b, arms, t["else"], neg
            return None
        return None
    return None


def _track_moves(fn, start_block, local):
    """Follow straight-line code from start_block: returns (block where flow stops being straight, alias set)."""
    blocks = fn["blocks"]
    aliases = {local}
    b = start_block
    for _ in range(8):
        blk = blocks[b]
        for st in blk["st"]:
            if st["k"] == "assign" and st["rv"]["r"] == "use" and not st["dst"]["p"]:
                l = local_of(st["rv"]["a"])
                if l in aliases:
                    aliases.add(st["dst"]["l"])
            # references to the result (`&r`) used by is_ok/is_err/as_ref
            if st["k"] == "assign" and st["rv"]["r"] == "ref" and not st["dst"]["p"]:
                pl = st["rv"]["pl"]
                if pl["l"] in aliases and not [p for p in pl["p"] if p != "*"]:
                    aliases.add(st["dst"]["l"])
        t = blk["term"]
        if t["k"] == "goto":
            b = t["t"]
            continue
        break
    return b, aliases


def success_edges(fn, bi, truth=None):
    """Edges taken iff the call at block bi 'succeeded' (returned Ok / true / Some).
    Returns (edges, kind). kind in try|match|isok|bool|plain-return|plain|unchecked|diverges."""
    blocks = fn["blocks"]
    t = blocks[bi]["term"]
    if t["t"] < 0:
        return [], "diverges"
    dst = t["dst"]
    res_local = dst["l"] if not dst["p"] else None
    edge = (bi, t["t"])
    if res_local is None:
        return [edge], "plain"
    ty = fn["locals"][res_local]["s"]
    if ty == "bool":
        sw = _bool_switch(fn, t["t"], res_local)
        if sw:
            sb, arms, els, neg = sw
            # SwitchInt on bool: arm "0" = false, else = true
            true_t = els
            false_t = arms.get("0", els)
            if neg:
                true_t, false_t = false_t, true_t
            want_true = True if truth is None else truth
            return [(sb, true_t if want_true else false_t)], "bool"
        return [edge], "plain"
    cur = bi
    hops = 0
    while hops < 8:
        hops += 1
        nb = blocks[cur]["term"]["t"]
        if nb < 0:
            break
        stop, aliases = _track_moves(fn, nb, res_local)
        blk = blocks[stop]
        tt = blk["term"]
        if tt["k"] == "call":
            args = [base_local(a) for a in tt["args"]]
            names = callee_names(tt)
            hit = [a for a in args if a in aliases]
            if hit:
                if any(n.endswith("ops::try_trait::Try::branch") for n in names):
                    cf = tt["dst"]["l"]
                    sw = _switch_after(fn, tt["t"], cf, "discr")
                    if sw:
                        sb, arms, els, _ = sw
                        if "0" in arms:
                            return [(sb, arms["0"])], "try"
                        return [(sb, els)], "try"
                    return [edge], "try?"
                if any(re.search(r"core::result::Result::(is_ok|is_err)$|core::option::Option::(is_some|is_none)$", n) for n in names):
                    neg0 = any(n.endswith("is_err") or n.endswith("is_none") for n in names)
                    bl = tt["dst"]["l"]
                    sw = _bool_switch(fn, tt["t"], bl)
                    if sw:
                        sb, arms, els, neg = sw
                        true_t = els
                        false_t = arms.get("0", els)
                        if neg:
                            true_t, false_t = false_t, true_t
                        return [(sb, false_t if neg0 else true_t)], "isok"
                    return [edge], "isok?"
                if any(PASS_THROUGH.search(n) or CONV_THROUGH.search(n) for n in names) and not tt["dst"]["p"]:
                    cur = stop
                    res_local = tt["dst"]["l"]
                    edge = (stop, tt["t"])
                    continue
        if tt["k"] == "switch":
            for a in list(aliases):
                sw = _switch_after(fn, stop, a, "discr")
                if sw:
                    sb, arms, els, _ = sw
                    # Result/Option: success variant is Ok=0 / Some=1
                    tyl = fn["locals"][a]["s"].lstrip("&").replace("mut ", "")
                    okv = "1" if tyl.startswith("core::option::Option<") else "0"
                    if okv in arms:
                        return [(sb, arms[okv])], "match"
                    # the ok variant is the `otherwise` arm only if every other variant is listed
                    return [(sb, els)], "match"
        if tt["k"] == "return" and 0 in aliases:
            return [edge], "plain-return"
        break
    if 0 in _track_moves(fn, blocks[cur]["term"]["t"], res_local)[1] if blocks[cur]["term"]["t"] >= 0 else False:
        return [edge], "plain-return"
    far = _far_checks(fn, res_local)
    if far:
        return far, "match-far"
    if is_result_ty(ty):
        # is the result ever read? (drop does not count)
        if _flows_to_return(fn, res_local):
            return [edge], "plain-return"
        return [edge], "unchecked"
    return [edge], "plain"


def _far_checks(fn, res_local):
    """The result is stored in a variable and tested later (`let res = f(); ...; match res {..}` / `res?`):
    success edges of every switch on the discriminant of an alias of res_local anywhere in the function."""
    blocks = fn["blocks"]
    aliases = {res_local}
    packed = set()  # (tuple local, field) holding the result: `let (res, flag) = { let res = f(); (res, x) };`
    changed = True
    while changed:
        changed = False
        for b in blocks:
            if b["cleanup"]:
                continue
            for st in b["st"]:
                if st["k"] != "assign" or st["dst"]["p"] or st["dst"]["l"] == 0:
                    continue
                rv = st["rv"]
                if rv["r"] == "use":
                    if local_of(rv["a"]) in aliases and st["dst"]["l"] not in aliases:
                        aliases.add(st["dst"]["l"])
                        changed = True
                    a = rv["a"]
                    if a.get("k") in ("copy", "move"):
                        pj = [p_ for p_ in a["pl"]["p"] if p_ != "*"]
                        if len(pj) == 1 and isinstance(pj[0], dict) and (a["pl"]["l"], pj[0].get("f")) in packed and st["dst"]["l"] not in aliases:
                            aliases.add(st["dst"]["l"])
                            changed = True
                elif rv["r"] == "agg" and rv.get("tuple"):
                    for i, o in enumerate(rv.get("ops", [])):
                        if local_of(o) in aliases and (st["dst"]["l"], str(i)) not in packed:
                            packed.add((st["dst"]["l"], str(i)))
                            changed = True
    edges = []
    live = live_blocks(fn)
    for bi, b in enumerate(blocks):
        if bi not in live or b["cleanup"]:
            continue
        t = b["term"]
        if t["k"] == "switch":
            for a in aliases:
                sw = _switch_after(fn, bi, a, "discr")
                if sw:
                    sb, arms, els, _ = sw
                    tyl = fn["locals"][a]["s"].lstrip("&").replace("mut ", "")
                    okv = "1" if tyl.startswith("core::option::Option<") else "0"
                    edges.append((sb, arms.get(okv, els)))
                    break
        elif t["k"] == "call" and any(n.endswith("ops::try_trait::Try::branch") for n in callee_names(t)):
            if any(base_local(a) in aliases for a in t["args"]) and t["t"] >= 0:
                sw = _switch_after(fn, t["t"], t["dst"]["l"], "discr")
                if sw:
                    sb, arms, els, _ = sw
                    edges.append((sb, arms.get("0", els)))
    return edges


def _bool_switch(fn, start, bl):
    blocks = fn["blocks"]
    b = start
    aliases = {bl}
    neg = False
    for _ in range(6):
        blk = blocks[b]
        for st in blk["st"]:
            if st["k"] == "assign" and not st["dst"]["p"]:
                rv = st["rv"]
                if rv["r"] == "use" and local_of(rv["a"]) in aliases:
                    aliases.add(st["dst"]["l"])
                elif rv["r"] == "un" and rv["op"] == "Not" and local_of(rv["a"]) in aliases:
                    # track negated alias separately
                    aliases = {st["dst"]["l"]}
                    neg = not neg
        t = blk["term"]
        if t["k"] == "goto":
            b = t["t"]
            continue
        if t["k"] == "switch" and local_of(t["d"]) in aliases:
            return b, {a[0]: a[1] for a in t["arms"]}, t["else"], neg
        return None
    return None


def _flows_to_return(fn, local, depth=0):
    """Is `local` moved (possibly through pass-through combinators / temporaries) into _0?"""
    if local == 0:
        return True
    if depth > 6:
        return False
    for bi, b in enumerate(fn["blocks"]):
        if b["cleanup"]:
            continue
        for st in b["st"]:
            if st["k"] == "assign" and st["rv"]["r"] == "use" and local_of(st["rv"]["a"]) == local and not st["dst"]["p"]:
                if _flows_to_return(fn, st["dst"]["l"], depth + 1):
                    return True
        t = b["term"]
        if t["k"] == "call" and any(base_local(a) == local for a in t["args"]) and not t["dst"]["p"]:
            if any(PASS_THROUGH.search(n) or CONV_THROUGH.search(n) for n in callee_names(t)):
                if _flows_to_return(fn, t["dst"]["l"], depth + 1):
                    return True
    return False


def error_exit_blocks(fn):
    """Blocks that put an Err (or a propagated residual) into the return place."""
    e = fn.get("_errx")
    if e is not None:
        return e
    bad = set()
    for bi, b in enumerate(fn["blocks"]):
        if b["cleanup"]:
            continue
        t = b["term"]
        if t["k"] == "call" and not t["dst"]["p"] and t["dst"]["l"] == 0 \
                and any(n.endswith("FromResidual::from_residual") for n in callee_names(t)):
            bad.add(bi)
        for st in b["st"]:
            if st["k"] == "assign" and st["dst"]["l"] == 0 and not st["dst"]["p"] and st["rv"]["r"] == "agg" \
                    and st["rv"].get("variant") == "Err" and st["rv"].get("adt", "").endswith("result::Result"):
                bad.add(bi)
    # error exits of a helper that was inlined at a `?` / tail-return call site (facts.absorb_new_functions) are error exits of this function
    bad |= set(fn.get("_errx_inlined", ()))
    fn["_errx"] = bad
    return bad


def ok_exit_blocks(fn):
    """Blocks assigning Ok(..) to the return place (informational)."""
    out = set()
    for bi, b in enumerate(fn["blocks"]):
        for st in b["st"]:
            if st["k"] == "assign" and st["dst"]["l"] == 0 and not st["dst"]["p"] and st["rv"]["r"] == "agg" \
                    and st["rv"].get("variant") == "Ok":
                out.add(bi)
    return out


# ---------------------------------------------------------------------- expression (origin) trees


class Ex:
    """Expression tree node. kind: param|field|call|const|item|bin|un|agg|phi|discr|unknown|local"""
    __slots__ = ("kind", "a", "kids", "f")

    def __init__(self, kind, a=None, kids=(), f=None):
        self.kind = kind
        self.a = a
        self.kids = tuple(kids)
        self.f = f  # field names of an aggregate, parallel to kids

    def __repr__(self):
        return render(self)


def _select_field(e, fname):
    """Projection of a known aggregate: `(a, b).1` is `b` (also through a phi of aggregates)."""
    if e.kind == "agg" and e.f and fname in e.f and len(e.f) == len(e.kids):
        return e.kids[e.f.index(fname)]
    if e.kind == "phi" and e.kids and all(k.kind == "agg" and k.f and fname in k.f and len(k.f) == len(k.kids) for k in e.kids):
        sel = [k.kids[k.f.index(fname)] for k in e.kids]
        uniq = {}
        for x in sel:
            uniq[render(x)] = x
        return list(uniq.values())[0] if len(uniq) == 1 else Ex("phi", None, list(uniq.values()))
    return None


def render(e, depth=0):
    if depth > 12:
        return "…"
    k = e.kind
    if k == "param":
        return "arg%d" % e.a
    if k == "field":
        return render(e.kids[0], depth + 1) + "." + e.a
    if k == "call":
        return "%s(%s)" % (e.a, ", ".join(render(x, depth + 1) for x in e.kids))
    if k == "const":
        return str(e.a)
    if k == "item":
        return "const:" + e.a
    if k == "bin":
        return "%s(%s, %s)" % (e.a, render(e.kids[0], depth + 1), render(e.kids[1], depth + 1))
    if k == "un":
        return "%s(%s)" % (e.a, render(e.kids[0], depth + 1))
    if k == "agg":
        return "%s{%s}" % (e.a, ", ".join(render(x, depth + 1) for x in e.kids))
    if k == "phi":
        return "phi(" + " | ".join(sorted(render(x, depth + 1) for x in e.kids)) + ")"
    if k == "discr":
        return "discr(" + render(e.kids[0], depth + 1) + ")"
    if k == "local":
        return "_%s" % e.a
    return "?"


TRANSPARENT = re.compile(
    r"(core::ops::deref::Deref(Mut)?::deref(_mut)?|core::borrow::Borrow(Mut)?::borrow(_mut)?|core::convert::AsRef::as_ref|"
    r"core::clone::Clone::clone|core::convert::Into::into|core::convert::From::from|core::ops::try_trait::Try::branch|"
    r"alloc::borrow::ToOwned::to_owned|core::option::Option::as_ref|core::result::Result::as_ref|alloc::sync::Arc::clone)$")


class Exprs:
    """Backward slicer producing expression trees for operands of one function."""

    def __init__(self, fn, max_depth=24):
        self.fn = fn
        self.defs = defs_of(fn)
        self.max_depth = max_depth

    def place(self, pl, depth, stack):
        projs = pl["p"]
        up = getattr(self, "upvars", None)
        if up and pl["l"] == 1:
            # closure body: `env.N` is what the enclosing function captured as its N-th upvar - continue in the enclosing function's tree
            rest = [p for p in projs if p != "*"]
            if rest and isinstance(rest[0], dict) and rest[0].get("f", "").isdigit() and not rest[0].get("of") and rest[0]["f"] in up:
                e = up[rest[0]["f"]]
                i0 = projs.index(rest[0])
                return self._project(e, projs[i0 + 1:])
        e = self.local(pl["l"], depth, stack)
        return self._project(e, projs)

    def _project(self, e, projs):
        for p in projs:
            if p == "*":
                continue
            if isinstance(p, dict):
                if "f" in p:
                    sel = _select_field(e, p["f"])
                    e = sel if sel is not None else Ex("field", p["f"], [e])
                elif "dc" in p:
                    e = Ex("field", "@" + p["dc"], [e])
                elif "idx" in p:
                    e = Ex("field", "[i]", [e])
                elif "cidx" in p:
                    e = Ex("field", "[%s]" % p["cidx"], [e])
            else:
                e = Ex("field", "[..]", [e])
        return e

    def operand(self, op, depth=0, stack=()):
        k = op.get("k")
        if k == "const":
            v = op["v"]
            if "v" in v and "item" in v:
                return Ex("item", "%s=%s" % (short(v["item"], 2), v["v"]))
            if "v" in v:
                return Ex("const", v["v"])
            if "fn" in v:
                return Ex("item", "fn " + short(v["fn"], 3))
            if "closure" in v:
                return Ex("item", "closure " + short(v["closure"], 3))
            if "item" in v:
                return Ex("item", short(v["item"], 2))
            return Ex("const", "<%s>" % v.get("ty", "?")[:40])
        if k in ("copy", "move"):
            return self.place(op["pl"], depth, stack)
        return Ex("unknown")

    def local(self, l, depth, stack):
        fn = self.fn
        if 1 <= l <= fn["argc"]:
            # a `mut` parameter that the body reassigns keeps the parameter atom: the slice is flow-insensitive, and a test made before the
            # first reassignment (`if size == 0 { return }`) must read the same whether the parameter or a shadowing local is mutated
            return Ex("param", l - 1)
        if depth > self.max_depth or l in stack:
            return Ex("local", l)
        ds = self.defs.get(l, [])
        if not ds:
            return Ex("local", l)
        stack = stack + (l,)
        outs = []
        for kind, bi, x in ds[:6]:
            if kind == "st":
                outs.append(self.rvalue(x, depth + 1, stack))
            else:
                outs.append(self.call(x, depth + 1, stack))
        if len(outs) == 1:
            return outs[0]
        # dedupe by rendering
        uniq = {}
        for o in outs:
            uniq[render(o)] = o
        if len(uniq) == 1:
            return list(uniq.values())[0]
        return Ex("phi", None, list(uniq.values()))

    def call(self, t, depth, stack):
        names = callee_names(t)
        name = names[0] if names else "indirect"
        if any(TRANSPARENT.search(n) for n in names) and t["args"]:
            return self.operand(t["args"][0], depth, stack)
        return Ex("call", short(name, 2), [self.operand(a, depth, stack) for a in t["args"][:6]])

    def rvalue(self, rv, depth, stack):
        r = rv["r"]
        if r == "use":
            return self.operand(rv["a"], depth, stack)
        if r == "ref":
            return self.place(rv["pl"], depth, stack)
        if r == "bin":
            return Ex("bin", rv["op"], [self.operand(rv["a"], depth, stack), self.operand(rv["b"], depth, stack)])
        if r == "un":
            return Ex("un", rv["op"], [self.operand(rv["a"], depth, stack)])
        if r == "cast":
            return self.operand(rv["a"], depth, stack)
        if r == "discr":
            return Ex("discr", None, [self.place(rv["pl"], depth, stack)])
        if r == "agg":
            if rv.get("closure"):
                # what a closure captures is how it is written (whole `self` or one field of it), not where an argument comes from
                return Ex("item", "closure " + short(rv["closure"], 3))
            name = rv.get("variant") or ("tuple" if rv.get("tuple") else "agg")
            if rv.get("adt"):
                name = short(rv["adt"], 1) + "::" + rv.get("variant", "")
            ops = rv.get("ops", [])[:12]
            names = rv.get("fields") if rv.get("adt") else [str(i) for i in range(len(ops))] if rv.get("tuple") else None
            return Ex("agg", name, [self.operand(o, depth, stack) for o in ops], f=tuple(names[:len(ops)]) if names else None)
        if r == "repeat":
            return Ex("agg", "repeat", [self.operand(rv["a"], depth, stack)])
        return Ex("unknown")


def subst(e, args, depth=0):
    """Replace parameter nodes of a callee's expression by the caller's argument expressions."""
    if depth > 30:
        return e
    if e.kind == "param":
        return args[e.a] if e.a < len(args) else e
    if not e.kids:
        return e
    kids = [subst(k, args, depth + 1) for k in e.kids]
    if e.kind == "field":
        sel = _select_field(kids[0], e.a)
        if sel is not None:
            return sel
    return Ex(e.kind, e.a, kids, f=e.f)


def _range_of(e):
    """`Iterator::next(into_iter(Range{a, b}))` -> the Range aggregate; None for any other call."""
    if e.kind != "call" or not e.a.endswith("Iterator::next") or not e.kids:
        return None
    x = e.kids[0]
    for _ in range(4):
        if x.kind == "agg" and x.a.startswith("Range::") and len(x.kids) == 2:
            return x
        if x.kind == "call" and x.kids and x.a.endswith(("IntoIterator::into_iter", "Iterator::by_ref")):
            x = x.kids[0]
        else:
            return None
    return None


def atoms(e, out=None, depth=0, ranges=False):
    """Leaf descriptors an expression is computed from."""
    if out is None:
        out = set()
    if depth > 14:
        return out
    k = e.kind
    if k == "param":
        out.add("arg%d" % e.a)
    elif k == "field":
        r = render(e)
        out.add(r)
        atoms(e.kids[0], out, depth + 1, ranges)
    elif k == "call":
        rng = _range_of(e) if ranges else None
        if rng is not None:
            # the element of `for n in a..b` is the counter `n = a; .. n += 1` (the bound b is what the loop test compares it with)
            out.add("op:Add")
            out.add("const:1")
            if rng.kids:
                atoms(rng.kids[0], out, depth + 1, ranges)
            return out
        out.add("call:" + e.a)
        for x in e.kids:
            atoms(x, out, depth + 1, ranges)
    elif k == "const":
        out.add("const:%s" % e.a)
    elif k == "item":
        out.add("item:" + e.a)
    elif k in ("bin", "un"):
        out.add("op:" + e.a)
        for x in e.kids:
            atoms(x, out, depth + 1, ranges)
    else:
        for x in e.kids:
            atoms(x, out, depth + 1, ranges)
    return out


CMP_CALL = {
    "PartialEq::eq": "Eq", "PartialEq::ne": "Ne", "PartialOrd::lt": "Lt", "PartialOrd::le": "Le",
    "PartialOrd::gt": "Gt", "PartialOrd::ge": "Ge",
}
NEGATE = {"Eq": "Ne", "Ne": "Eq", "Lt": "Ge", "Ge": "Lt", "Gt": "Le", "Le": "Gt"}
SWAP = {"Eq": "Eq", "Ne": "Ne", "Lt": "Gt", "Gt": "Lt", "Le": "Ge", "Ge": "Le"}


def as_cmp(e):
    """Normalise an expression to (op, lhs, rhs, negated?) when it is a comparison; else None."""
    neg = False
    while e.kind == "un" and e.a == "Not":
        neg = not neg
        e = e.kids[0]
    if e.kind == "bin" and e.a in NEGATE:
        op = e.a
        return (NEGATE[op] if neg else op), e.kids[0], e.kids[1]
    if e.kind == "call" and e.a in CMP_CALL and len(e.kids) >= 2:
        op = CMP_CALL[e.a]
        return (NEGATE[op] if neg else op), e.kids[0], e.kids[1]
    return None


def switch_conditions(fn, max_depth=24, ex=None):
    """For every live switch block: (block, expr tree of the discriminant, arms, else)."""
    ex = ex or Exprs(fn, max_depth)
    out = []
    live = live_blocks(fn)
    for bi, b in enumerate(fn["blocks"]):
        t = b["term"]
        if t["k"] != "switch" or b["cleanup"] or bi not in live:
            continue
        out.append((bi, ex.operand(t["d"]), [(a[0], a[1]) for a in t["arms"]], t["else"]))
    return out


def err_variant_reached(fn, start, limit=40):
    """First error-enum variant constructed on the straight-line continuation of block `start`."""
    seen = set()
    q = collections.deque([(start, 0)])
    while q:
        b, d = q.popleft()
        if b in seen or d > limit:
            continue
        seen.add(b)
        blk = fn["blocks"][b]
        for st in blk["st"]:
            if st["k"] == "assign" and st["rv"]["r"] == "agg" and "adt" in st["rv"]:
                adt = st["rv"]["adt"]
                if adt.endswith("Error") or adt.endswith("ErrorKind") or adt.endswith("PoolError"):
                    return short(adt, 1) + "::" + st["rv"]["variant"]
        t = blk["term"]
        if t["k"] in ("goto", "drop", "assert"):
            q.append((t["t"], d + 1))
        elif t["k"] == "call" and t["t"] >= 0:
            q.append((t["t"], d + 1))
        elif t["k"] == "switch" and set((t.get("span") or {}).get("macros", [])) & {"error", "warn", "info", "debug", "trace", "log"}:
            # `error!(..)` before `return Err(..)`: the log-level test is not a real branch
            for a in t["arms"]:
                q.append((a[1], d + 1))
            q.append((t["else"], d + 1))
    return None
