"""R5 lock discipline: lock classes, per-function held-set dataflow, transitive may-acquire summaries,
acquisition-order graph (must be acyclic and embed in the declared hierarchy), re-entrancy, callbacks under locks."""
import collections
import re

from cfg import *
from facts import *
from rules import Ctx, callees_poly, pat

GUARD_TY = re.compile(r"^(lock_api::rwlock::RwLock(Read|Write|UpgradableRead)Guard|lock_api::mutex::MutexGuard|std::sync::(poison::)?(mutex::)?MutexGuard|std::sync::(poison::)?(rwlock::)?RwLock(Read|Write)Guard)<")
ACQ_CALL = re.compile(r"lock_api::rwlock::RwLock::(read|write|upgradable_read|try_read|try_write|read_recursive|try_read_for|try_write_for)$|"
                      r"lock_api::mutex::Mutex::(lock|try_lock|try_lock_for)$|std::sync::(poison::)?(mutex::)?Mutex::lock$|std::sync::(poison::)?(rwlock::)?RwLock::(read|write)$")
BATCH_ACQ = re.compile(r"grin_store::lmdb::Store::batch$|grin_chain::store::ChainStore::batch$|grin_p2p::store::PeerStore::batch$|grin_store::lmdb::Batch::new$")
BATCH_TY = re.compile(r"(^|[ <(,&])(grin_store::lmdb::Batch<|grin_chain::store::Batch<|grin_chain::pipe::BlockContext<|grin_p2p::store::PeersIterBatch)")
# lock classes identified by the protected type (one instance per node; Arc clones held by several structs)
SINGLETON = re.compile(r"grin_chain::txhashset::txhashset::TxHashSet$|grin_chain::txhashset::txhashset::PMMRHandle<grin_core::core::block::BlockHeader>$|"
                       r"core::option::Option<grin_chain::txhashset::(segmenter::Segmenter|desegmenter::Desegmenter)>$")
LMDB_W = "LMDB_W"


def _split_generics(s):
    depth = 0
    parts, cur = [], ""
    for ch in s:
        if ch in "<([":
            depth += 1
        elif ch in ">)]":
            depth -= 1
        if ch == "," and depth == 0:
            parts.append(cur.strip())
            cur = ""
        else:
            cur += ch
    if cur.strip():
        parts.append(cur.strip())
    return parts


def guard_inner(ty):
    m = GUARD_TY.match(ty)
    if not m:
        return None
    inner = ty[m.end():-1]
    parts = _split_generics(inner)
    return parts[-1] if parts else None


def lock_class(fn, t, dst_ty):
    """Class of the lock acquired by call terminator t (an ACQ_CALL): protected type for singletons, else owner.field of the receiver."""
    inner = guard_inner(dst_ty) or "?"
    if SINGLETON.search(inner):
        return short(re.sub(r"^core::option::Option<(.*)>$", r"\1", inner), 1).replace("PMMRHandle", "HeaderPMMR") if "PMMRHandle" in inner else \
            "Option<" + short(re.sub(r"^core::option::Option<(.*)>$", r"\1", inner), 1) + ">" if inner.startswith("core::option::Option") else short(inner, 1)
    # receiver origin: find the field projection the lock lives in
    ex = Exprs(fn)
    if t["args"]:
        e = ex.operand(t["args"][0])
        cur = e
        # walk down to the outermost field
        while cur.kind == "call" and cur.kids:
            cur = cur.kids[0]
        if cur.kind == "field" and re.match(r"^[a-z_][a-z0-9_]*$", str(cur.a)):
            owner = _field_owner(fn, t["args"][0])
            if owner:
                return "%s.%s" % (owner, cur.a)
        if cur.kind == "item":
            return "static:" + str(cur.a).split("=")[0]
    return "type:" + short(inner, 1)


def _field_owner(fn, op):
    """Owner ADT of the last field projection on the path from which the receiver reference was taken."""
    l = base_local(op)
    seen = 0
    defs = defs_of(fn)
    while l is not None and seen < 8:
        seen += 1
        ds = defs.get(l, [])
        if not ds:
            return None
        kind, bi, x = ds[0]
        pl = None
        if kind == "st":
            if x["r"] in ("ref",):
                pl = x["pl"]
            elif x["r"] == "use" and x["a"].get("k") in ("copy", "move"):
                pl = x["a"]["pl"]
            else:
                return None
        else:
            # deref call: follow its first arg
            if x["args"]:
                l = base_local(x["args"][0])
                a = x["args"][0]
                if a.get("k") in ("copy", "move"):
                    fields = [p for p in a["pl"]["p"] if isinstance(p, dict) and "f" in p]
                    if fields:
                        return short(fields[-1].get("of", "?").split("::<")[0], 1)
                continue
            return None
        fields = [p for p in pl["p"] if isinstance(p, dict) and "f" in p]
        if fields:
            return short((fields[-1].get("of") or "?").split("::<")[0], 1)
        l = pl["l"]
    return None


class LockAnalysis:
    def __init__(self, ctx, crates):
        self.ctx = ctx
        self.F = ctx.F
        self.crates = crates
        self.fns = [k for c in crates for k in self.F.by_crate.get(c, [])]
        self.direct = {}      # fn -> {class}
        self.info = {}        # fn -> (guard_locals{local: class}, gen{block: (local, class)}, IN, OUT)
        self.acq_sites = collections.defaultdict(list)  # class -> [(fn, loc)]
        for k in self.fns:
            self._analyse(k)
        self._summaries()

    def _analyse(self, k):
        fn = self.F.fns[k]
        blocks = fn["blocks"]
        n = len(blocks)
        gen = {}
        gl = {}
        for bi, b in enumerate(blocks):
            t = b["term"]
            if t["k"] != "call" or b["cleanup"]:
                continue
            names = callee_names(t)
            d = t["dst"]
            if d["p"]:
                continue
            dty = fn["locals"][d["l"]]["s"]
            if any(ACQ_CALL.search(x) for x in names) and GUARD_TY.match(dty):
                cls = lock_class(fn, t, dty)
                gen[bi] = (d["l"], cls)
                gl[d["l"]] = cls
                self.acq_sites[cls].append((k, loc(t)))
            elif any(BATCH_ACQ.search(x) for x in names):
                # Result<Batch, _>: the token lives in the result local and every local it is moved to
                gen[bi] = (d["l"], LMDB_W)
                gl[d["l"]] = LMDB_W
                self.acq_sites[LMDB_W].append((k, loc(t)))
        self.direct[k] = {c for (_l, c) in gen.values()}
        if not gen:
            self.info[k] = None
            return
        # propagate token locals through moves (`let x = r?`, aggregates, calls returning a struct that contains the batch)
        changed = True
        it = 0
        while changed and it < 6:
            changed = False
            it += 1
            for bi, b in enumerate(blocks):
                if b["cleanup"]:
                    continue
                for st in b["st"]:
                    if st["k"] == "assign" and not st["dst"]["p"]:
                        rv = st["rv"]
                        srcs = []
                        if rv["r"] == "use":
                            srcs = [rv["a"]]
                        elif rv["r"] == "agg":
                            srcs = rv.get("ops", [])
                        for o in srcs:
                            if o.get("k") == "move" and o["pl"]["l"] in gl and st["dst"]["l"] not in gl:
                                dty = fn["locals"][st["dst"]["l"]]["s"]
                                if gl[o["pl"]["l"]] != LMDB_W or BATCH_TY.search(dty) or "Result<" in dty or "ControlFlow<" in dty:
                                    gl[st["dst"]["l"]] = gl[o["pl"]["l"]]
                                    changed = True
                t = b["term"]
                if t["k"] == "call" and not t["dst"]["p"]:
                    for a in t["args"]:
                        if a.get("k") == "move" and a["pl"]["l"] in gl and t["dst"]["l"] not in gl:
                            dty = fn["locals"][t["dst"]["l"]]["s"]
                            if (gl[a["pl"]["l"]] == LMDB_W and (BATCH_TY.search(dty))) or \
                                    (gl[a["pl"]["l"]] != LMDB_W and GUARD_TY.match(dty)) or \
                                    any(x.endswith("Try::branch") for x in callee_names(t)) and ("ControlFlow<" in dty):
                                gl[t["dst"]["l"]] = gl[a["pl"]["l"]]
                                changed = True
        succ = succs(fn)
        # transfer functions: ordered kill/gen operations per block (statements first, then the terminator)
        ops = [[] for _ in range(n)]
        for bi, b in enumerate(blocks):
            if b["cleanup"]:
                continue
            for st in b["st"]:
                if st["k"] == "assign" and not st["dst"]["p"]:
                    rv = st["rv"]
                    srcs = [rv["a"]] if rv["r"] == "use" else rv.get("ops", []) if rv["r"] == "agg" else []
                    for o in srcs:
                        if o.get("k") == "move" and o["pl"]["l"] in gl:
                            ops[bi].append(("kill", o["pl"]["l"]))
                            if st["dst"]["l"] in gl:
                                ops[bi].append(("gen", st["dst"]["l"]))
            t = b["term"]
            if t["k"] == "drop" and t["pl"]["l"] in gl and not [p for p in t["pl"]["p"] if p != "*"]:
                ops[bi].append(("kill", t["pl"]["l"]))
            if t["k"] == "call":
                moved = False
                for a in t["args"]:
                    if a.get("k") == "move" and a["pl"]["l"] in gl:
                        # moved (wholly, or the batch field of a context) into the callee: released from this frame,
                        # or transferred to the result when the result can hold it
                        ops[bi].append(("kill", a["pl"]["l"]))
                        moved = True
                if bi in gen:
                    ops[bi].append(("gen", gen[bi][0]))
                elif moved and not t["dst"]["p"] and t["dst"]["l"] in gl:
                    ops[bi].append(("gen", t["dst"]["l"]))
        IN = [set() for _ in range(n)]
        OUT = [set() for _ in range(n)]
        visited = [False] * n
        work = collections.deque([0])
        while work:
            b = work.popleft()
            o = set(IN[b])
            for kind, l in ops[b]:
                if kind == "kill":
                    o.discard(l)
                else:
                    o.add(l)
            first = not visited[b]
            visited[b] = True
            if o != OUT[b] or first:
                OUT[b] = o
                for s2 in succ[b]:
                    new = IN[s2] | o
                    if new != IN[s2] or not visited[s2]:
                        IN[s2] = new
                        work.append(s2)
        self.info[k] = (gl, gen, IN, OUT)

    def _callees(self, k, t):
        return [n for n in callees_poly(self.F, t) if n in self.direct]

    def _summaries(self):
        may = {k: set(v) for k, v in self.direct.items()}
        changed = True
        it = 0
        while changed and it < 40:
            changed = False
            it += 1
            for k in self.fns:
                cur = may[k]
                new = set(cur)
                for bi, t in self.F.calls(k):
                    if any(n.endswith("std::thread::spawn") or n.endswith("thread::Builder::spawn") or n.endswith("Builder::spawn_scoped") for n in callee_names(t)):
                        continue  # detached: the closure runs on another thread
                    for n in self._callees(k, t):
                        new |= may[n]
                if new != cur:
                    may[k] = new
                    changed = True
        self.may = may

    def held_at(self, k, bi):
        v = self.info.get(k)
        if not v:
            return set()
        gl, gen, IN, OUT = v
        return {gl[l] for l in IN[bi] if l in gl}

    def order_edges(self):
        """(held class, acquired class) -> [(fn, loc, via)]"""
        edges = collections.defaultdict(list)
        reent = []
        for k, v in self.info.items():
            if not v:
                continue
            gl, gen, IN, OUT = v
            fn = self.F.fns[k]
            for bi, t in self.F.calls(k):
                held = {gl[l] for l in IN[bi] if l in gl}
                if not held:
                    continue
                acquired = []
                if bi in gen:
                    acquired.append((gen[bi][1], "direct"))
                else:
                    if any(n.endswith("std::thread::spawn") or n.endswith("thread::Builder::spawn") for n in callee_names(t)):
                        continue
                    for n in self._callees(k, t):
                        for c in self.may[n]:
                            acquired.append((c, "via " + short(n, 2)))
                for c, via in acquired:
                    for h in held:
                        if h == c:
                            if h == LMDB_W and via == "direct":
                                continue
                            reent.append((k, loc(t), h, via))
                        else:
                            edges[(h, c)].append((k, loc(t), via))
        return edges, reent


def find_cycle(edges):
    g = collections.defaultdict(set)
    for (a, b) in edges:
        g[a].add(b)
    color = {}
    stack = []

    def dfs(u):
        color[u] = 1
        stack.append(u)
        for v in g[u]:
            if color.get(v) == 1:
                return stack[stack.index(v):] + [v]
            if v not in color:
                r = dfs(v)
                if r:
                    return r
        stack.pop()
        color[u] = 2
        return None

    for u in list(g):
        if u not in color:
            r = dfs(u)
            if r:
                return r
    return None
