"""R9 confirmed-instance baseline: the structural summaries of the functions a property names, computed on the tree on which every
rule instance was confirmed, are the reference for later changes (Engler: the instances confirmed today are the rule).

For every function in scope three summaries are derived from MIR facts (never from text, no line numbers):
  must   every exit that is not an error exit passes the success edge of a call to G          (G cannot be dropped or made conditional)
  order  every path to a state-changing call B passes the success edge of a checking call A   (a check cannot move behind the state change)
  args   the origin atoms of each argument of a state-changing call B                         (arguments cannot be swapped or re-sourced)
A baseline entry is violated only when the current tree contradicts it: `order` and `args` entries are vacuous when B is gone, `must` and
`order` accept a callee that transitively ensures the call (helper extraction), additions are always fine."""
import collections
import json
import os
import re

from cfg import *
from facts import *
from rules import Ctx, pat, callees_poly

VERIF = os.path.dirname(os.path.dirname(os.path.dirname(os.path.abspath(__file__))))
SINK = re.compile(
    r"(?:^|::)(save_\w+|delete_\w*|put\w*|commit|sync\w*|flush|rewind\w*|apply_\w+|push\w*|prune\w*|remove\w*|rename|set_len|write_\w+|write_all|truncate|"
    r"check_compact|compact|reconcile\w*|evict\w*|cache_\w+|add_to_\w+|add_block\w*|update_\w+|init_\w+|replace\w*|discard|retain|clear|insert|extend|append|"
    r"extending|header_extending|force_rollback|set_\w+|reset_\w+|copy_from_slice|clone_from_slice|with_capacity|from_elem|reserve|advance|split_to|"
    r"block_accepted|tx_accepted|stem_tx_accepted|send\w*|broadcast\w*|ban_peer|resize|sync_all|remove_file|remove_dir_all|create|"
    r"sort\w*|dedup\w*|reverse|drain|swap\w*|fetch_add|fetch_sub|store|randomize)$")
NOISE = re.compile(r"^(core::fmt|log::|alloc::fmt|core::ops::try_trait|core::ops::deref|core::clone|core::convert|core::borrow|alloc::string|alloc::str|core::hint|alloc::borrow)")
WS = re.compile(r"^<?grin")


def _is_ws(names):
    return any(WS.match(n) or n.startswith("<grin") or " as grin_" in n for n in names)


def call_key(fn, t, ex):
    """Stable key of a call: short callee + (for methods) the receiver origin when it is a plain field path;
    calls that receive a closure also carry their ordinal among the calls of the same callee (they are distinct units of work)."""
    names = callee_names(t)
    k = short(names[0], 2)
    if any(c.endswith("}") for c in t.get("ncallables", [])):
        n = 0
        for b in fn["blocks"]:
            t2 = b["term"]
            if t2["k"] == "call" and not b["cleanup"] and t2.get("names") and short(t2["names"][0], 2) == k and any(c.endswith("}") for c in t2.get("ncallables", [])):
                n += 1
                if t2 is t:
                    break
        k += "#%d" % n
    if t["args"]:
        e = ex.operand(t["args"][0])
        r = render(e)
        if re.match(r"^arg\d+(\.[a-z_][a-z0-9_]*)+$", r) and len(r) < 60:
            k += "(" + r + ")"
    return k


def _swap_prone(F, t):
    for n in callee_names(t):
        g = F.fns.get(n)
        if g is not None:
            tys = [g["locals"][i]["s"] for i in range(1, g["argc"] + 1)]
            return len(tys) != len(set(tys))
    return False


def _stable_atoms(e):
    """Origin atoms that survive renames and re-formatting: parameters with their field paths, callee names, constant items,
    and the name of every field that is projected (`field:kernel_mmr_size`) so that same-typed siblings are told apart."""
    out = set()
    for a in atoms(e):
        if a.startswith("const:") or a.startswith("op:"):
            continue
        if a.startswith("item:"):
            out.add(a.split("=")[0])
            continue
        if a.startswith("call:"):
            out.add(a)
            continue
        # field paths
        m = re.search(r"\.([a-z_][a-z0-9_]*|\d)$", a)
        if m:
            out.add("field:" + m.group(1))
        if re.match(r"^arg\d+(\.[a-z_][a-z0-9_]*)*$", a) and len(a) <= 70:
            out.add(a)
    return sorted(out)


def summarize(F, key):
    fn = F.fns[key]
    ex = Exprs(fn)
    live = live_blocks(fn)
    rets = return_blocks(fn)
    is_res = is_result_ty(fn["locals"][0]["s"])
    dead = error_exit_blocks(fn) if is_res else set()
    calls = []
    for bi, t in F.calls(key):
        if bi not in live:
            continue
        names = callee_names(t)
        if not names or NOISE.match(names[0]) or set((t.get("span") or {}).get("macros", [])) & {"debug", "trace", "info", "warn", "error", "format", "write", "println"}:
            continue
        ws = _is_ws(names)
        sink = bool(SINK.search(strip_impl(names[-1]))) or bool(SINK.search(names[0]))
        if not ws and not sink:
            continue
        e, kind = success_edges(fn, bi)
        calls.append({"bi": bi, "key": call_key(fn, t, ex), "ws": ws, "sink": sink, "edges": e, "kind": kind, "t": t})
    by_key = collections.defaultdict(list)
    for c in calls:
        by_key[c["key"]].append(c)
    # must: cutting the success edges of every call with this key makes the non-error exits unreachable
    must = []
    for k, lst in sorted(by_key.items()):
        cuts = []
        for c in lst:
            if c["kind"] in ("unchecked", "diverges"):
                cuts.append((c["bi"], c["t"]["t"]))  # the call is made; its result is not a gate
            else:
                cuts += c["edges"]
        if cuts and reach(fn, [0], rets, cuts, dead) is None:
            must.append(k)
    # order: A before sink B
    order = []
    checks = [c for c in calls if c["kind"] in ("try", "match", "match-far", "isok", "bool", "plain-return") and c["ws"]]
    ckeys = sorted({c["key"] for c in checks})
    for bk, blst in sorted(by_key.items()):
        if not any(c["sink"] for c in blst):
            continue
        targets = {c["bi"] for c in blst}
        for ak in ckeys:
            if ak == bk:
                continue
            cuts = []
            for c in by_key[ak]:
                cuts += c["edges"]
            if cuts and reach(fn, [0], targets, cuts) is None:
                order.append([ak, bk])
    # args of sink calls, and of calls to workspace functions with two parameters of the same type (swap-prone)
    args = {}
    for bk, blst in sorted(by_key.items()):
        if not any(c["sink"] or _swap_prone(F, c["t"]) for c in blst):
            continue
        alts = []
        for c in blst:
            al = [_sig_atoms(ex.operand(a)) for a in c["t"]["args"][:6]]
            if ALLOC_HINT.search(callee_names(c["t"])[0]):
                al = [[x for x in a if not x.startswith("const:")] for a in al]
            alts.append(al)
        args[bk] = alts
    # guards: every real branch condition (comparisons with operand origins, boolean calls) - `?`, log-level tests and loop headers excluded
    conds = {}
    guards = []
    for bi, e, arms, els in switch_conditions(fn):
        if _is_try_switch(fn, bi):
            continue  # `?`: covered by the must/order summaries
        sig = cond_signature(e)
        if sig is None:
            continue
        conds[bi] = (sig, dict(arms), els)
        guards.append(sig)
    guards.sort(key=lambda g: json.dumps(g))
    # silent: conditions a state-changing call is control dependent on whose other outcome carries on normally (not a rejection)
    silent = {}
    ok_rets = {b for b in rets if b not in dead}
    for bk, blst in sorted(by_key.items()):
        if not any(c["sink"] for c in blst):
            continue
        targets = {c["bi"] for c in blst}
        found = []
        for bi, (sig, am, els) in conds.items():
            outs = [(v, t2) for v, t2 in am.items()] + [("else", els)]
            if len({t2 for _v, t2 in outs}) < 2:
                continue
            for v, t2 in outs:
                if reach(fn, [0], targets, [(bi, t2)]) is None and reach(fn, [0], targets) is not None:
                    # taking this edge is necessary to reach B; is some other outcome a normal continuation?
                    others = [x for _w, x in outs if x != t2]
                    if any(reach(fn, [x], ok_rets, (), dead) is not None for x in others):
                        found.append([sig, v])
        if found:
            silent[bk] = sorted(found, key=lambda g: json.dumps(g))
    # assigns: origins of every value stored into a field of a parameter (`self.size = ..`, `trees.bitmap_accumulator = ..`)
    assigns = {}
    for bi, b in enumerate(fn["blocks"]):
        if b["cleanup"] or bi not in live:
            continue
        for st in b["st"]:
            if st["k"] != "assign" or not st["dst"]["p"] or not (1 <= st["dst"]["l"] <= fn["argc"] or _derives_from_param(fn, st["dst"]["l"])):
                continue
            fields = [p["f"] for p in st["dst"]["p"] if isinstance(p, dict) and "f" in p]
            if not fields or not re.match(r"^[a-z_]", fields[-1]):
                continue
            a = _sig_atoms(ex.rvalue(st["rv"], 0, ()))
            assigns.setdefault(".".join(fields), []).append(a)
        t = b["term"]
        if t["k"] == "call" and t["dst"]["p"] and (1 <= t["dst"]["l"] <= fn["argc"] or _derives_from_param(fn, t["dst"]["l"])):
            fields = [p["f"] for p in t["dst"]["p"] if isinstance(p, dict) and "f" in p]
            if fields and re.match(r"^[a-z_]", fields[-1]):
                assigns.setdefault(".".join(fields), []).append(_sig_atoms(ex.call(t, 0, ())))
    # ret: origins of the value a pure (non-Result) function returns
    ret = None
    rty = fn["locals"][0]["s"]
    if not is_res and rty not in ("()", "!") and not rty.startswith("core::option::Option<alloc::boxed") and fn["kind"] != "Closure":
        a = _sig_atoms(ex.local(0, 0, ()))
        if 0 < len(a) <= 24:
            ret = a
    return {"must": must, "order": order, "args": args, "guards": guards, "silent": silent, "assigns": assigns, "ret": ret, "consts": const_census(fn)}


ALLOC_HINT = re.compile(r"::(with_capacity|reserve|reserve_exact)$")
INT_TY = re.compile(r"^[ui](8|16|32|64|128|size)$")


def const_census(fn):
    """Multiset of the integer literals (>= 2) and named constant items a function computes with, including integer match arms."""
    c = collections.Counter()

    def op(o):
        if o and o.get("k") == "const":
            v = o["v"]
            if "v" in v and INT_TY.match(v.get("ty", "")):
                try:
                    n = int(v["v"])
                except ValueError:
                    return
                if "item" in v:
                    if not WS.match(norm(v["item"])):
                        return  # constants of std/core internals (layout, alignment) are compiler detail, not the function's arithmetic
                    c["%s=%d" % (short(v["item"], 2), n)] += 1
                elif n >= 2:
                    c[str(n)] += 1

    live = live_blocks(fn)
    for bi, b in enumerate(fn["blocks"]):
        if b["cleanup"] or bi not in live:
            continue
        for st in b["st"]:
            if st["k"] == "assign":
                rv = st["rv"]
                for f in ("a", "b"):
                    if isinstance(rv.get(f), dict):
                        op(rv[f])
                for o in rv.get("ops", []):
                    op(o)
        t = b["term"]
        if t["k"] == "call":
            if set((t.get("span") or {}).get("macros", [])) & {"debug", "trace", "info", "warn", "error", "format", "write", "println", "panic", "assert", "assert_eq"}:
                continue
            if ALLOC_HINT.search(callee_names(t)[0] if callee_names(t) else ""):
                continue  # a pre-allocation hint: any constant is a bounded allocation (C11's R4 rule decides non-constant ones)
            for a in t["args"]:
                op(a)
        elif t["k"] == "switch":
            l = local_of(t["d"])
            if l is not None and INT_TY.match(fn["locals"][l]["s"]):
                for v, _t in t["arms"]:
                    try:
                        if int(v) >= 2:
                            c["arm:" + v] += 1
                    except ValueError:
                        pass
    return dict(c)


def _derives_from_param(fn, l):
    """The local is a (re)borrow of a parameter (`let extension = &mut ext.extension`)."""
    seen = 0
    while seen < 6:
        seen += 1
        if 1 <= l <= fn["argc"]:
            return True
        ds = defs_of(fn).get(l, [])
        if len(ds) != 1 or ds[0][0] != "st":
            return False
        rv = ds[0][2]
        if rv["r"] == "ref":
            l = rv["pl"]["l"]
        elif rv["r"] == "use" and rv["a"].get("k") in ("copy", "move"):
            l = rv["a"]["pl"]["l"]
        else:
            return False
    return False


def _is_try_switch(fn, bi):
    """The switch tests the ControlFlow produced by `Try::branch` (the `?` operator)."""
    blk = fn["blocks"][bi]
    d = local_of(blk["term"]["d"])
    src = None
    for st in reversed(blk["st"]):
        if st["k"] == "assign" and not st["dst"]["p"] and st["dst"]["l"] == d and st["rv"]["r"] == "discr":
            src = st["rv"]["pl"]["l"]
            break
    if src is None:
        return False
    for kind, b2, x in defs_of(fn).get(src, []):
        if kind == "call" and any(n.endswith("ops::try_trait::Try::branch") for n in callee_names(x)):
            return True
    return False


def cond_signature(e):
    """[op, lhs atoms, rhs atoms] for comparisons, ["cond", atoms, []] for boolean calls / flags; None for `?`, log tests, loop headers."""
    txt = render(e)
    if "Try::branch" in txt or "max_level" in txt or "STATIC_MAX_LEVEL" in txt or txt.startswith("PartialOrd::le(Level::"):
        return None
    if txt.startswith("discr(") and ("Iterator::next" in txt[:40] or "range::next" in txt[:40] or "::next(" in txt[:30]):
        return None
    if txt.startswith("phi(0 | 1)") or txt in ("?",):
        return None
    c = as_cmp(e)
    if c:
        op, l, r = c
        la, ra = _sig_atoms(l), _sig_atoms(r)
        # canonical form independent of branch polarity and operand order: a comparison and its negation are the same test
        #   a > b, a <= b -> Gt(a, b)      a < b, a >= b -> Gt(b, a)      a == b, a != b -> Eq(sorted sides)
        if op in ("Eq", "Ne"):
            if json.dumps(la) > json.dumps(ra):
                la, ra = ra, la
            return ["Eq", la, ra]
        if op in ("Gt", "Le"):
            return ["Gt", la, ra]
        return ["Gt", ra, la]
    neg = False
    ee = e
    while ee.kind == "un" and ee.a == "Not":
        ee = ee.kids[0]
    if ee.kind == "discr":
        inner = ee.kids[0]
        # `match x {..}` / `if let` on a call result that is not a plain `?`
        a = _sig_atoms(inner)
        return ["match", a, []] if a else None
    a = _sig_atoms(ee)
    return ["cond", a, []] if a else None


def _sig_atoms(e):
    out = set(_stable_atoms(e))
    for a in atoms(e):
        if a.startswith("const:") and re.match(r"^const:\d{1,6}$", a):
            out.add(a)
        if a.startswith("op:") and a not in ("op:Not",):
            out.add(a.replace("WithOverflow", ""))
    return sorted(out)


def scope(F, prop_record, depth=2, want_named=False):
    """Functions a property names: defined in one of its anchor files and mentioned (by method or Type::method name) in its
    mechanism list, plus the functions of the anchor files they call (transitively, `depth` levels) and the closures inside those."""
    files = set(prop_record["anchors"]["files"])
    text = " ".join(m["name"] for m in prop_record["anchors"]["mechanism"])
    words = set(re.findall(r"[A-Za-z_][A-Za-z0-9_]*", text))
    in_files = {k for k, fn in F.fns.items() if fn["span"]["file"] in files}
    # `Segmenter::{bitmap,output}_segment` and `add_*_segment` name families of methods: expand them over the methods of the anchor files
    globs = []
    for pre, alts, post in re.findall(r"([A-Za-z0-9_]*)\{([a-z0-9_, ]+)\}([A-Za-z0-9_]*)", text):
        for a in alts.split(","):
            words.add(pre + a.strip() + post)
    for g in re.findall(r"[A-Za-z0-9_]*\*[A-Za-z0-9_*]*", text):
        if len(g.replace("*", "")) >= 4 and re.match(r"^[a-z_*]", g):
            globs.append(re.compile("^" + re.escape(g).replace("\\*", "[a-z0-9_]+") + "$"))
    if globs:
        for k in in_files:
            m = re.sub(r"^.*::", "", re.sub(r"<[^<>]*>", "", re.sub(r"(::\{closure#\d+\})+$", "", k)))
            if any(g.match(m) for g in globs):
                words.add(m)
    named = set()
    by_method = collections.defaultdict(list)
    for k in in_files:
        base = re.sub(r"(::\{closure#\d+\})+$", "", k)
        m = re.sub(r"^.*::", "", re.sub(r"<[^<>]*>", "", base))
        if m in words and len(m) > 3:
            by_method[m].append(k)
    for m, ks in by_method.items():
        bases = {re.sub(r"(::\{closure#\d+\})+$", "", k) for k in ks}
        for k in ks:
            base = re.sub(r"(::\{closure#\d+\})+$", "", k)
            fn = F.fns.get(base) or F.fns[k]
            st = (fn.get("impl_self") or {}).get("s", "")
            tr = (fn.get("impl_trait") or "").split("::")[-1]
            ty = re.sub(r"<.*$", "", st).split("::")[-1]
            # a method name shared by several types counts only for the types (or traits) the property mentions;
            # serialisation impls always count (every one of them is decode/encode surface)
            if len(bases) == 1 or not st or ty in words or tr in words or tr in ("Readable", "Writeable"):
                named.add(k)
    out = set(named)
    frontier = set(named)
    for _ in range(depth):
        nxt = set()
        for k in frontier:
            for bi, t in F.calls(k):
                for n in callees_poly(F, t):
                    if n in in_files and n not in out:
                        nxt.add(n)
        out |= nxt
        frontier = nxt
    # closures of everything in scope
    for k in in_files:
        base = re.sub(r"(::\{closure#\d+\})+$", "", k)
        if base in out:
            out.add(k)
        if base in named:
            named.add(k)
    if want_named:
        return sorted(out), named
    return sorted(out)


def baseline_path(prop):
    return os.path.join(VERIF, "baseline", prop + ".json")


def _closure_role(F, k):
    """Closures are keyed by the parent function and the call that receives them (indices are not stable)."""
    fn = F.fns[k]
    if fn["kind"] != "Closure":
        return k
    parent = fn.get("parent")
    if not parent or parent not in F.fns:
        return k
    for bi, t in F.calls(parent):
        if k in t["ncallables"]:
            peers = [c for b2, t2 in F.calls(parent) if short(callee_names(t2)[0], 2) == short(callee_names(t)[0], 2) for c in t2["ncallables"] if c in F.fns]
            uniq = []
            for c in peers:
                if c not in uniq:
                    uniq.append(c)
            return "%s@%s#%d" % (_closure_role(F, parent), short(callee_names(t)[0], 2), uniq.index(k) + 1 if k in uniq else 1)
    return k


def generate(F, prop_record, named_elsewhere=()):
    """Baseline of one property. A function that the property reaches but does not name is left to the properties that do name it
    (`named_elsewhere`), so that a change is reported under the properties whose mechanism it touches."""
    out = {}
    fns, named = scope(F, prop_record, want_named=True)
    for k in fns:
        if k not in named and k in named_elsewhere:
            continue
        s = summarize(F, k)
        if s["must"] or s["order"] or s["args"] or s["guards"] or s["assigns"] or s["ret"] or s["consts"]:
            s["named"] = k in named
            out[_closure_role(F, k)] = s
    return out


def check(ctx, prop):
    """Compare the current tree with the committed baseline of `prop`."""
    F = ctx.F
    p = baseline_path(prop)
    if not os.path.exists(p):
        return ctx.lost("baseline", "R9", None, "confirmed-instance baseline", "baseline file missing: " + p)
    base = json.load(open(p))
    roles = {}
    for k in F.fns:
        roles.setdefault(_closure_role(F, k), k)
    n_must = n_order = n_args = 0
    n_guards = [0]
    n_silent = [0]
    n_assign = [0]
    bad = 0
    for role, b in sorted(base.items()):
        k = roles.get(role)
        if k is None and not b.get("named", True):
            # a helper the property does not name was renamed, inlined or removed: its callers' summaries still constrain the behaviour
            ctx.stats["baseline_helpers_gone"] = ctx.stats.get("baseline_helpers_gone", 0) + 1
            continue
        if k is None:
            bad += 1
            ctx.record("baseline", "R9", role, "function named by the property is present", "anchor-lost", [], ["function not found (renamed or removed): " + role], key_detail="lost:" + role)
            continue
        ctx.fn_seen.add(k)
        cur = summarize(F, k)
        fn = F.fns[k]
        where = fn_loc(fn)
        # must (with helper tolerance: a callee that ensures the call)
        for m in b["must"]:
            n_must += 1
            if m in cur["must"]:
                continue
            callee = re.sub(r"\(.*$", "", m)
            if ctx.ensures(k, pat("re:(?:^|::|<| )%s$" % re.escape(callee)), 2):
                continue
            bad += 1
            ctx.record("baseline-must", "R9", k, "%s: every non-error exit passes a successful %s" % (short(k, 2), m), "violation", [where],
                       ["on the confirmed tree every non-error exit of %s passed %s; now an exit avoids it (call dropped, made conditional, or its result ignored)" % (k, m)],
                       key_detail="must:" + m)
        cur_order = {tuple(x) for x in cur["order"]}
        cur_keys = set(cur["args"]) | {x for pair in cur["order"] for x in pair} | set(cur["must"])
        for a, bk in b["order"]:
            n_order += 1
            if (a, bk) in cur_order or bk not in cur["args"]:
                continue  # holds, or the state change is gone from this function (vacuous)
            # helper tolerance: some callee ensures A before B is reached
            callee = re.sub(r"\(.*$", "", a)
            rx = pat("re:(?:^|::|<| )%s$" % re.escape(callee))
            sites = ctx._call_blocks(k, rx, 2)
            targets = {bi for bi, t in F.calls(k) if _matches_key(fn, t, bk)}
            cuts = []
            for bi, _how in sites:
                cuts += success_edges(fn, bi)[0]
            if cuts and targets and reach(fn, [0], targets, cuts) is None:
                continue
            bad += 1
            p2 = reach(fn, [0], targets, cuts) if targets else None
            ctx.record("baseline-order", "R9", k, "%s: %s succeeds before %s" % (short(k, 2), a, bk), "violation", [where],
                       ["on the confirmed tree every path to %s passed a successful %s; now a path reaches it without" % (bk, a)] + (path_locs(fn, p2) if p2 else []),
                       key_detail="order:%s>%s" % (a, bk))
        for bk, alts in b["args"].items():
            if bk not in cur["args"]:
                continue
            for ci, cur_alt in enumerate(cur["args"][bk]):
                n_args += 1
                okay = False
                for base_alt in alts:
                    if len(base_alt) == len(cur_alt) and all(set(x) <= set(y) for x, y in zip(base_alt, cur_alt)):
                        okay = True
                        break
                if okay:
                    continue
                bad += 1
                miss = []
                base_alt = alts[min(ci, len(alts) - 1)]
                for i, (x, y) in enumerate(zip(base_alt, cur_alt)):
                    d = sorted(set(x) - set(y))
                    if d:
                        miss.append("argument %d no longer derives from %s (now from %s)" % (i, d, y[:6]))
                ctx.record("baseline-args", "R9", k, "%s: arguments of %s keep their origins" % (short(k, 2), bk), "violation", [where],
                           miss or ["argument count or origins changed: %s" % cur_alt], key_detail="args:" + bk)
        # guards: every confirmed branch condition is still there with the same operator and operand origins
        cur_g = list(cur.get("guards", []))
        for g in b.get("guards", []):
            n_guards[0] += 1
            hit = None
            for i, cg in enumerate(cur_g):
                if cg[0] == g[0] and set(g[1]) <= set(cg[1]) and set(g[2]) <= set(cg[2]):
                    hit = i
                    break
                if g[0] == "Eq" and cg[0] == "Eq" and set(g[1]) <= set(cg[2]) and set(g[2]) <= set(cg[1]):
                    hit = i
                    break
            if hit is not None:
                cur_g.pop(hit)
                continue
            if _guard_in_helper(ctx, k, g):
                continue
            bad += 1
            ctx.record("baseline-guard", "R9", k, "%s: branch condition %s(%s ; %s) is present" % (short(k, 2), g[0], ",".join(g[1])[:80], ",".join(g[2])[:80]), "violation", [where],
                       ["on the confirmed tree %s branched on %s(%s ; %s); no branch with this operator and these operand origins remains (guard removed, weakened or its operands re-sourced)"
                        % (k, g[0], g[1], g[2]), "remaining unmatched conditions: %s" % cur_g[:4]], key_detail="guard:%s:%s:%s" % (g[0], ",".join(g[1])[:60], ",".join(g[2])[:60]))
        # silent: a state change must not become conditional on a new non-rejecting condition
        for bk, cur_conds in cur.get("silent", {}).items():
            base_conds = b.get("silent", {}).get(bk)
            if bk not in b.get("args", {}):
                continue  # a new state-changing call: nothing confirmed about it
            for (sig, arm) in cur_conds:
                n_silent[0] += 1
                okc = False
                for (bs, barm) in (base_conds or []):
                    if bs[0] == sig[0] and str(barm) == str(arm) and set(bs[1]) <= set(sig[1]) and set(bs[2]) <= set(sig[2]):
                        okc = True
                        break
                if okc:
                    continue
                bad += 1
                ctx.record("baseline-silent", "R9", k, "%s: %s is not skipped under a new condition" % (short(k, 2), bk), "violation", [where],
                           ["%s is now reached only when %s(%s ; %s) takes arm %s, and the other outcome carries on without it (on the confirmed tree it was not conditional on this)"
                            % (bk, sig[0], sig[1], sig[2], arm)], key_detail="silent:%s:%s" % (bk, sig[0]))
        for field, alts in b.get("assigns", {}).items():
            cur_alts = cur.get("assigns", {}).get(field)
            if not cur_alts:
                continue  # the field is no longer written here (vacuous; a dropped write shows up in the hand tables / must set)
            for ca in cur_alts:
                n_assign[0] += 1
                if any(set(ba) <= set(ca) for ba in alts):
                    continue
                bad += 1
                ctx.record("baseline-assign", "R9", k, "%s: the value stored into .%s keeps its origins" % (short(k, 2), field), "violation", [where],
                           ["on the confirmed tree .%s was assigned from %s; now from %s" % (field, alts[:2], ca)], key_detail="assign:" + field)
        cc = dict(cur.get("consts", {}))
        missing = {kk: n for kk, n in b.get("consts", {}).items() if cc.get(kk, 0) < n}
        if missing:
            # helper tolerance: the arithmetic may have moved into a directly called workspace function
            for hk in _direct_helpers(F, k):
                for kk, n in const_census(F.fns[hk]).items():
                    cc[kk] = cc.get(kk, 0) + n
            missing = {kk: n for kk, n in b.get("consts", {}).items() if cc.get(kk, 0) < n}
        n_assign[0] += len(b.get("consts", {}))
        if missing:
            bad += 1
            ctx.record("baseline-consts", "R9", k, "%s: integer literals, named constants and match-arm values are kept" % short(k, 2), "violation", [where],
                       ["on the confirmed tree %s computed with %s; these are gone or changed (now: %s)" % (k, missing, {x: n for x, n in cc.items() if x not in b.get("consts", {}) or n != b["consts"][x]})],
                       key_detail="consts:" + ",".join(sorted(missing))[:80])
        if b.get("ret") and cur.get("ret") is not None:
            n_assign[0] += 1
            have = set(cur["ret"])
            if not set(b["ret"]) <= have:
                for hk in _direct_helpers(F, k):
                    have |= set(summarize(F, hk).get("ret") or [])
            if not set(b["ret"]) <= have:
                bad += 1
                ctx.record("baseline-ret", "R9", k, "%s: the returned value keeps its origins and operators" % short(k, 2), "violation", [where],
                           ["on the confirmed tree the result derived from %s; now from %s (missing %s)" % (b["ret"], cur["ret"], sorted(set(b["ret"]) - set(cur["ret"])))],
                           key_detail="ret")
    ctx.stats["baseline_functions"] = len(base)
    ctx.stats["baseline_assign_ret"] = n_assign[0]
    ctx.stats["baseline_guards"] = n_guards[0]
    ctx.stats["baseline_silent"] = n_silent[0]
    ctx.stats["baseline_must"] = n_must
    ctx.stats["baseline_order"] = n_order
    ctx.stats["baseline_args"] = n_args
    if not bad:
        ctx.record("baseline", "R9", None, "confirmed-instance baseline: %d functions, %d must-pass, %d check-before-change, %d argument-origin, %d branch-condition, %d no-new-skip instances hold" % (
            len(base), n_must, n_order, n_args, n_guards[0], n_silent[0]), "hold", sorted(base)[:6])
    return not bad


def _direct_helpers(F, k):
    out = []
    for bi, t in F.calls(k):
        for n in callee_names(t):
            if n in F.fns and n != k and WS.match(n) and n not in out:
                out.append(n)
    return out


def _guard_in_helper(ctx, k, g):
    """A confirmed branch condition that moved into a directly called workspace helper (matched with the helper's parameters
    replaced by the caller's argument expressions)."""
    F = ctx.F
    f = F.fns[k]
    exf = Exprs(f)
    for cbi, t in F.calls(k):
        for gname in callee_names(t):
            if gname not in F.fns or gname == k or F.fns[gname]["kind"] == "Closure":
                continue
            gf = F.fns[gname]
            args = [exf.operand(a) for a in t["args"]]
            for bi, e, arms, els in switch_conditions(gf):
                if _is_try_switch(gf, bi):
                    continue
                sig = cond_signature(subst(e, args))
                if sig and sig[0] == g[0] and set(g[1]) <= set(sig[1]) and set(g[2]) <= set(sig[2]):
                    return True
    return False


def _matches_key(fn, t, key):
    return call_key(fn, t, Exprs(fn)) == key


Ctx.r9 = check
