"""R9 confirmed-instance baseline: the structural summaries of the functions a property names, computed on the tree on which every
rule instance was confirmed, are the reference for later changes (Engler: the instances confirmed today are the rule).

For every function in scope three summaries are derived from MIR facts (never from text, no line numbers):
  must   every exit that is not an error exit passes the success edge of a call to G          (G cannot be dropped or made conditional)
  order  every path to a state-changing call B passes the success edge of a checking call A   (a check cannot move behind the state change)
  args   the origin atoms of each argument of a state-changing call B                         (arguments cannot be swapped or re-sourced)
A baseline entry is violated only when the current tree contradicts it: `order` and `args` entries are vacuous when B is gone, `must` and
`order` accept a callee that transitively ensures the call (helper extraction), additions are always fine."""
import collections
import json
import os
import re

from cfg import *
from facts import *
from rules import Ctx, pat, callees_poly

VERIF = os.path.dirname(os.path.dirname(os.path.dirname(os.path.abspath(__file__))))
SINK = re.compile(
    r"(?:^|::)(save_\w+|delete_\w*|put\w*|commit|sync\w*|flush|rewind\w*|apply_\w+|push\w*|prune\w*|remove\w*|rename|set_len|write_\w+|write_all|truncate|"
    r"check_compact|compact|reconcile\w*|evict\w*|cache_\w+|add_to_\w+|add_block\w*|update_\w+|init_\w+|replace\w*|discard|retain|clear|insert|extend|append|"
    r"extending|header_extending|force_rollback|set_\w+|reset_\w+|copy_from_slice|clone_from_slice|with_capacity|from_elem|reserve|advance|split_to|"
    r"block_accepted|tx_accepted|stem_tx_accepted|send\w*|broadcast\w*|ban_peer|resize|sync_all|remove_file|remove_dir_all|create|"
    r"sort\w*|dedup\w*|reverse|drain|swap\w*|fetch_add|fetch_sub|store|randomize|read_exact|recv\w*)$")
NOISE = re.compile(r"^(core::fmt|log::|alloc::fmt|core::ops::try_trait|core::ops::deref|core::clone|core::convert|core::borrow|alloc::string|alloc::str|core::hint|alloc::borrow)")
WS = re.compile(r"^<?grin")


def _is_ws(names):
    return any(WS.match(n) or n.startswith("<grin") or " as grin_" in n for n in names)


def call_key(fn, t, ex):
    """Stable key of a call: short callee + (for methods) the receiver origin when it is a plain field path;
    calls that receive a closure also carry their ordinal among the calls of the same callee (they are distinct units of work)."""
    names = callee_names(t)
    k = short(names[0], 2)
    if any(c.endswith("}") for c in t.get("ncallables", [])):
        n = 0
        for b in fn["blocks"]:
            t2 = b["term"]
            if t2["k"] == "call" and not b["cleanup"] and t2.get("names") and short(t2["names"][0], 2) == k and any(c.endswith("}") for c in t2.get("ncallables", [])):
                n += 1
                if t2 is t:
                    break
        k += "#%d" % n
    if t["args"]:
        e = ex.operand(t["args"][0])
        r = render(e)
        if re.match(r"^arg\d+(\.[a-z_][a-z0-9_]*)+$", r) and len(r) < 60:
            k += "(" + r + ")"
    return k


def _swap_prone(F, t):
    for n in callee_names(t):
        g = F.fns.get(n)
        if g is not None:
            tys = [g["locals"][i]["s"] for i in range(1, g["argc"] + 1)]
            return len(tys) != len(set(tys))
    return False


STD_ARITH = {
    "num::saturating_sub": "op:Sub", "num::checked_sub": "op:Sub", "num::wrapping_sub": "op:Sub", "num::overflowing_sub": "op:Sub",
    "num::saturating_add": "op:Add", "num::checked_add": "op:Add", "num::wrapping_add": "op:Add", "num::overflowing_add": "op:Add",
    "num::saturating_mul": "op:Mul", "num::checked_mul": "op:Mul", "num::wrapping_mul": "op:Mul",
    "num::checked_div": "op:Div", "num::checked_rem": "op:Rem", "num::pow": "op:pow", "num::checked_pow": "op:pow",
    "cmp::min": "op:min", "cmp::max": "op:max", "Ord::min": "op:min", "Ord::max": "op:max", "Ord::clamp": "op:clamp",
    "num::leading_zeros": "op:leading_zeros", "num::trailing_zeros": "op:trailing_zeros", "num::count_ones": "op:count_ones",
    "num::abs": "op:abs", "num::abs_diff": "op:abs_diff",
}
CANON_OP = {"Lt": "Gt", "Le": "Ge", "Ne": "Eq"}
_WS_SHORT = {}


def ws_short_names(F):
    """Short names (`Type::method`, `Trait::method`, `module::function`) of every function the workspace defines, now or on the reviewed tree."""
    got = _WS_SHORT.get(id(F))
    if got is None:
        def own(k):
            # methods of std / external traits implemented for workspace types (`Iterator::next`, `Clone::clone`, `From::from`) are not origins
            m = re.match(r"^<.* as ([A-Za-z_0-9]+)::", k)
            return m is None or m.group(1).startswith("grin")
        cur = {short(k, 2) for k in F.fns if own(k)}
        cur |= {short(k, 2) for k in getattr(F, "absorbed_fns", {}) if own(k)}
        base = set()
        try:
            base = {short(k, 2) for k in json.load(open(os.path.join(VERIF, "baseline", "functions.json"))) if own(k)}
        except (OSError, ValueError):
            pass
        got = (cur, base)
        _WS_SHORT[id(F)] = got
    return got


def _stab(F, e_or_atoms):
    """Origin atoms that survive refactoring: parameters with their field paths, names of projected fields, workspace callees, integer values
    (a literal and a named constant of the same value are the same atom) and arithmetic operators (checked/saturating forms and min/max
    included). Calls into std/external crates (iterators, collections, Option/Result plumbing) are representation, not origin."""
    at = e_or_atoms if isinstance(e_or_atoms, (set, list, tuple, frozenset)) else atoms(e_or_atoms, ranges=True)
    cur, base = ws_short_names(F)
    out = set()
    for a in at:
        if a.startswith("const:"):
            m = re.match(r"^const:(-?\d{1,12})$", a)
            if m:
                out.add("val:" + m.group(1))
            continue
        if a.startswith("item:"):
            m = re.search(r"=(-?\d{1,12})$", a)
            if m:
                out.add("val:" + m.group(1))
            elif a.startswith("item:fn "):
                # a workspace function handed to a combinator (`unwrap_or_else(Transaction::empty)`) is called on its behalf
                n2 = "::".join(a[8:].split("::")[-2:])
                if n2 in cur or n2 in base:
                    out.add("call:" + n2)
            continue  # promoted constants (`None`, a struct literal) carry no stable origin
        if a.startswith("op:"):
            o = a[3:].replace("WithOverflow", "")
            if o == "Not":
                continue
            out.add("op:" + CANON_OP.get(o, o))
            continue
        if a.startswith("call:"):
            n = a[5:]
            if n in STD_ARITH:
                out.add(STD_ARITH[n])
            elif n in cur or n in base:
                out.add(a)
            continue
        m = re.search(r"\.([a-z_][a-z0-9_]*)$", a)
        if m:
            out.add("field:" + m.group(1))
        if re.match(r"^arg\d+(\.[a-z_][a-z0-9_]*)*$", a) and len(a) <= 70:
            out.add(a)
    return sorted(out)


def _live_atoms(F, atom_list):
    """Baseline atoms that can still be expected: a call atom of a function that no longer exists (inlined or renamed) is dropped."""
    cur, _base = ws_short_names(F)
    return {a for a in atom_list if not (a.startswith("call:") and a[5:] not in cur)}


# adaptors that let only part of a collection through: new ones on the way into a state-changing call are reported (`args` facet)
NARROW = re.compile(r"^call:(?:Iterator|DoubleEndedIterator|slice|Vec|VecDeque|Itertools)::(filter|filter_map|take|skip|take_while|skip_while|step_by|truncate|retain|split_off|drain|"
                    r"dedup|dedup_by|dedup_by_key|chunks_exact|rchunks_exact|zip|nth|last|find|find_map|unique|split_at|split_first|split_last)$")


def _narrow(e):
    return sorted({"narrow:" + NARROW.match(a).group(1) for a in atoms(e) if NARROW.match(a)})


def _closure_captures(fn, ex, op):
    """Expression trees of what a closure passed as this operand captures (empty when the operand is not a closure built in this function)."""
    seen = 0
    while seen < 5 and op.get("k") in ("copy", "move") and not op["pl"]["p"]:
        seen += 1
        ds = defs_of(fn).get(op["pl"]["l"], [])
        if len(ds) != 1 or ds[0][0] != "st":
            return []
        rv = ds[0][2]
        if rv["r"] == "agg" and rv.get("closure"):
            return [ex.operand(o) for o in rv.get("ops", [])[:12]]
        if rv["r"] == "use":
            op = rv["a"]
        elif rv["r"] == "ref" and not rv["pl"]["p"]:
            op = {"k": "copy", "pl": rv["pl"]}
        else:
            return []
    return []


def _narrow_op(fn, ex, a):
    """Narrowing adaptors on the way into an argument; for a closure argument, on the way into anything it captures (the element a
    `retain(|x| x != picked)` keeps or drops is selected where `picked` was computed)."""
    out = set(_narrow(ex.operand(a)))
    for ce in _closure_captures(fn, ex, a):
        out |= set(_narrow(ce))
    return sorted(out)


GATE = ("try", "match", "match-far", "isok", "bool", "plain-return")
CMP_RET = ("Eq", "Gt")


def _calls_of(F, key):
    """Workspace calls and state-changing (sink) calls of a function, with their success edges."""
    fn = F.fns[key]
    ex = plain_for(F, key)
    live = live_blocks(fn)
    calls = []
    for bi, t in F.calls(key):
        if bi not in live:
            continue
        names = callee_names(t)
        if not names or NOISE.match(names[0]) or set((t.get("span") or {}).get("macros", [])) & {"debug", "trace", "info", "warn", "error", "format", "write", "println"}:
            continue
        ws = _is_ws(names)
        if not ws and t["args"] and any(re.search(r"ops::function::(Fn::call|FnMut::call_mut)$", nm) for nm in names):
            # a callback stored in a field of a parameter (`(ctx.header_allowed)(header)?`): a workspace-defined check like any other
            ws = bool(re.match(r"^arg\d+(\.[a-z_][a-z0-9_]*)+$", render(ex.operand(t["args"][0]))))
        sink = (bool(SINK.search(strip_impl(names[-1]))) or bool(SINK.search(names[0]))) and not ALLOC_HINT.search(names[0])
        if not ws and not sink:
            continue
        e, kind = success_edges(fn, bi)
        calls.append({"bi": bi, "key": call_key(fn, t, ex), "ws": ws, "sink": sink, "edges": e, "kind": kind, "t": t})
    return calls


def _recv_is_state(fn, t, ex):
    """The receiver of a std sink call (`push`, `insert`, `retain`, ...) is a field of a parameter (shared state), not a local collection."""
    if not t["args"]:
        return False
    r = render(ex.operand(t["args"][0]))
    return bool(re.match(r"^arg\d+(\.[a-z_][a-z0-9_]*)+$", r))


def plain_for(F, key):
    fn = F.fns[key]
    ex = fn.get("_r9plain")
    if ex is None:
        ex = Exprs(fn)
        fn["_r9plain"] = ex
    return ex


def exprs_for(F, key, depth=0):
    """Expression slicer of a function; for a closure, upvars resolve into the enclosing function's expression trees."""
    fn = F.fns[key]
    ex = fn.get("_r9ex")
    if ex is not None:
        return ex
    ex = Exprs(fn)
    par = fn.get("parent")
    if fn["kind"] == "Closure" and par in F.fns and depth < 3:
        pfn = F.fns[par]
        for b in pfn["blocks"]:
            if b["cleanup"]:
                continue
            for st in b["st"]:
                if st["k"] == "assign" and st["rv"].get("r") == "agg" and st["rv"].get("closure") and norm(st["rv"]["closure"]) == key:
                    pex = exprs_for(F, par, depth + 1)
                    ex.upvars = {str(i): pex.operand(o) for i, o in enumerate(st["rv"].get("ops", [])[:16])}
    fn["_r9ex"] = ex
    return ex


def summarize(F, key):
    fn = F.fns[key]
    ex = plain_for(F, key)
    exu = exprs_for(F, key)  # closure upvars resolved into the enclosing function: used for argument origins only (what a check is applied to)
    live = live_blocks(fn)
    rets = return_blocks(fn)
    is_res = is_result_ty(fn["locals"][0]["s"])
    dead = error_exit_blocks(fn) if is_res else set()
    calls = _calls_of(F, key)
    by_key = collections.defaultdict(list)
    for c in calls:
        by_key[c["key"]].append(c)
    # must: cutting the success edges of every call with this key makes the non-error exits unreachable.
    # Only gates (calls whose result decides the continuation) and state changes count: a value computed by a plain call shows up in the
    # origins of whatever uses it.
    must = []
    for k, lst in sorted(by_key.items()):
        if not any(c["sink"] or c["kind"] in GATE for c in lst):
            continue
        cuts = []
        for c in lst:
            if c["kind"] in ("unchecked", "diverges"):
                cuts.append((c["bi"], c["t"]["t"]))  # the call is made; its result is not a gate
            else:
                cuts += c["edges"]
        if cuts and reach(fn, [0], rets, cuts, dead) is None:
            must.append(k)
    # order: A before sink B
    order = []
    # (a call whose verdict is merely handed on - `let r = f(); .. return r` - has no success edge of its own: "before" would only mean "called")
    checks = [c for c in calls if c["kind"] in GATE and c["kind"] != "plain-return" and c["ws"]]
    ckeys = sorted({c["key"] for c in checks})
    for bk, blst in sorted(by_key.items()):
        if not any(c["sink"] for c in blst):
            continue
        targets = {c["bi"] for c in blst}
        for ak in ckeys:
            if ak == bk:
                continue
            cuts = []
            for c in by_key[ak]:
                cuts += c["edges"]
            if cuts and reach(fn, [0], targets, cuts, dead) is None:
                order.append([ak, bk])
    # each: inside a loop, between two consecutive executions of the state-changing call B the state-changing call A is passed again
    # (`set_stream_timeout` before every `read_exact`): hoisting A out of the loop changes what every later iteration runs under
    each = []
    sink_keys = sorted(k2 for k2, l2 in by_key.items() if any(c["sink"] for c in l2))
    for bk in sink_keys:
        for cb in by_key[bk]:
            nxt = cb["t"]["t"]
            if nxt is None or nxt < 0 or reach(fn, [nxt], {cb["bi"]}) is None:
                continue  # not in a cycle
            for ak in sink_keys:
                if ak == bk or [ak, bk] in each:
                    continue
                cuts = []
                for c in by_key[ak]:
                    cuts += c["edges"] if c["kind"] not in ("unchecked", "diverges") else [(c["bi"], c["t"]["t"])]
                if cuts and reach(fn, [nxt], {cb["bi"]}, cuts) is None and reach(fn, [0], {cb["bi"]}, cuts) is None:
                    each.append([ak, bk])  # A precedes B in every iteration, the first one included
    # phase: B consumes the result of A (its arguments derive from it) and yet can run before any A has succeeded - a loop-carried value
    # whose first use sees the initial value (`read(current); current = previous(current)`). Swapping the two statements shifts every
    # iteration by one: the first element is skipped and one element past the end is visited.
    phase = []
    ws_now, _ws_base = ws_short_names(F)
    for bk, blst in sorted(by_key.items()):
        if not any(c["ws"] for c in blst) or _short_callee(bk) not in ws_now:
            continue  # (methods of std traits implemented for workspace types - `Iterator::next` - are plumbing: a `for` loop may become an adaptor chain)
        batoms = set()
        for c in blst:
            for a in c["t"]["args"][:6]:
                batoms |= atoms(ex.operand(a))
        for ak, alst in sorted(by_key.items()):
            if ak == bk or not any(c["ws"] for c in alst) or _short_callee(ak) not in ws_now:
                continue
            ashort = _short_callee(ak)
            if "call:" + ashort not in batoms or ashort == _short_callee(bk):
                continue
            # only loop-carried pairs: A and B lie on a common cycle
            bset, aset = {c["bi"] for c in blst}, {c["bi"] for c in alst}
            if reach(fn, [x for c in alst for x in succs(fn)[c["bi"]]], bset) is None or reach(fn, [x for c in blst for x in succs(fn)[c["bi"]]], aset) is None:
                continue
            cuts = []
            for c in alst:
                cuts += c["edges"] if c["kind"] not in ("unchecked", "diverges") else [(c["bi"], c["t"]["t"])]
            init = reach(fn, [0], bset, cuts, dead) is not None
            ent = [ashort, _short_callee(bk), init]
            if ent not in phase:
                phase.append(ent)
    # args of workspace sink calls, of std sink calls on shared state, and of workspace calls with two parameters of the same type (swap-prone)
    args = {}
    for bk, blst in sorted(by_key.items()):
        # ... and of workspace checks whose verdict decides the continuation (`has_more_work(header, header_head)`): a check keeps being applied to the same data
        keep = [c for c in blst if (c["sink"] and (c["ws"] or _recv_is_state(fn, c["t"], ex))) or (c["ws"] and _swap_prone(F, c["t"])) or (c["ws"] and c["kind"] in GATE and c["kind"] != "plain-return")]
        if not keep:
            continue
        args[bk] = [[_stab(F, exu.operand(a)) + _narrow_op(fn, exu, a) for a in c["t"]["args"][:6]] for c in keep]
    # guards: every real branch condition - `?`, log-level tests and loop headers excluded
    conds = {}
    guards = []
    gcount = collections.Counter()
    lt_all = loop_exit_tests(fn)
    for bi, e, arms, els in switch_conditions(fn, ex=ex):
        if _is_try_switch(fn, bi):
            continue  # `?`: covered by the must/order summaries
        sig = cond_signature(F, e, in_loop=(bi in lt_all))
        dl = local_of(fn["blocks"][bi]["term"]["d"])
        if dl is not None and INT_TY.match(fn["locals"][dl]["s"]) and arms and not as_cmp(e) and e.kind not in ("discr", "phi") and not render(e).startswith("discr("):
            # `match height { 0 => .., _ => .. }` switches on the integer itself: the same tests as `height == 0`
            side = _stab(F, e)
            if side:
                extra_sigs = []
                for v, _t2 in arms:
                    try:
                        sg = ["Eq", side, ["val:%d" % int(v)]]
                    except ValueError:
                        continue
                    if json.dumps(sg[1]) > json.dumps(sg[2]):
                        sg = ["Eq", sg[2], sg[1]]
                    extra_sigs.append(sg)
                if extra_sigs:
                    sig = extra_sigs[0]
                    for sg in extra_sigs[1:]:
                        gcount[json.dumps(sg)] += 1
                        if sg not in guards:
                            guards.append(sg)
        if sig is None:
            continue
        conds[bi] = (sig, dict(arms), els)
        if sig[0] != "branch":
            gcount[json.dumps(sig)] += 1
        if sig not in guards:
            guards.append(sig)
    # comparisons whose result is used as a value (`let left = x == n - 1;`, `a > b` as the tail expression) are the same tests
    # (not the compiler's own range checks: `1 << h` asserts `h < 64`, an index asserts `i < len`)
    assert_conds = set()
    for b in fn["blocks"]:
        if b["term"]["k"] == "assert":
            l_ = local_of(b["term"].get("cond") or {})
            if l_ is not None:
                assert_conds.add(l_)
    for bi, b in enumerate(fn["blocks"]):
        if b["cleanup"] or bi not in live:
            continue
        for st in b["st"]:
            if st["k"] == "assign" and st["rv"]["r"] == "bin" and st["rv"]["op"] in NEGATE and not (not st["dst"]["p"] and st["dst"]["l"] in assert_conds):
                sig = cond_signature(F, ex.rvalue(st["rv"], 0, ()))
                if sig and sig[0] != "branch" and sig not in guards:
                    guards.append(sig)
        t = b["term"]
        if t["k"] == "call" and any(short(x, 2) in CMP_CALL for x in callee_names(t)):
            sig = cond_signature(F, ex.call(t, 0, ()))
            if sig and sig[0] != "branch" and sig not in guards:
                guards.append(sig)
    guards.sort(key=lambda g: json.dumps(g))
    # loops: the tests that decide whether a loop goes round again (`while a > b { .. }`): turned into a plain `if` the body runs at most once
    lt = loop_exit_tests(fn)
    loops = []
    ok_rets_l = {b for b in rets if b not in dead}
    for bi, (sig, _am, _els) in conds.items():
        if bi not in lt or sig in loops:
            continue
        if sig[0] == "branch" and not sig[2]:
            continue  # a test of nothing nameable (a std call's verdict): too vague to follow through a refactoring
        if not all(reach(fn, [t2], ok_rets_l, (), dead) is not None for t2 in set(_am.values()) | {_els} if fn["blocks"][t2]["term"]["k"] != "unreachable"):
            continue  # one outcome only rejects (`if let Err(e) = read(..) { return Err(e) }` inside a loop): a rejection, not the loop's control
        loops.append(sig)
    loops.sort(key=lambda g: json.dumps(g))
    # loop exits decided by a boolean temporary (`matches!(x, Ok(_))`, `let done = ..; if done { break }`): the test that produced it has no exit edge itself
    loop_anon = 0
    for bi, e, arms, els in switch_conditions(fn, ex=ex):
        if bi in lt and bi not in conds and e.kind == "phi" and e.kids and all(x.kind == "const" for x in e.kids):
            loop_anon += 1
    # silent: conditions a state-changing call is control dependent on whose other outcome carries on normally (not a rejection)
    silent = {}
    ok_rets = {b for b in rets if b not in dead}
    for bk, blst in sorted(by_key.items()):
        if not any(c["sink"] or (c["ws"] and c["kind"] in GATE) for c in blst):
            continue  # state changes, and workspace checks whose verdict decides the continuation (an early `return Ok` must not skip them)
        targets = {c["bi"] for c in blst}
        found = []
        for bi, (sig, am, els) in conds.items():
            if bi in fn.get("_loop_heads", ()):
                continue  # the condition of a `while` does not "skip" what the body does (the header of a `for` loop is not recorded either)
            outs = [(v, t2) for v, t2 in am.items()] + [("else", els)]
            if len({t2 for _v, t2 in outs}) < 2:
                continue
            for v, t2 in outs:
                if reach(fn, [0], targets, [(bi, t2)]) is None and reach(fn, [0], targets) is not None:
                    others = [x for _w, x in outs if x != t2]
                    if any(reach(fn, [x], ok_rets, (), dead) is not None for x in others):
                        found.append([sig, v])
        if found:
            silent[bk] = sorted(found, key=lambda g: json.dumps(g))
    # silent_n: per call, how many branch outcomes (named or not: `if v.is_empty() { return Ok(()) }` on a local vector has no stable origin)
    # skip it while the other outcome carries on - a condition that merely became nameable is not a new condition
    silent_n = {}
    anon = []
    for bi, e, arms, els in switch_conditions(fn, ex=ex):
        if bi in conds or _is_try_switch(fn, bi) or bi in fn.get("_loop_heads", ()):
            continue
        txt = render(e)
        if "Try::branch" in txt or "max_level" in txt or "STATIC_MAX_LEVEL" in txt or txt.startswith("PartialOrd::le(Level::") or re.match(r"^discr\([A-Za-z0-9_:<>, ]*::next\(", txt[:60]):
            continue
        anon.append((bi, dict(arms), els))
    for bk, blst in sorted(by_key.items()):
        if not any(c["sink"] or (c["ws"] and c["kind"] in GATE) for c in blst):
            continue
        targets = {c["bi"] for c in blst}
        cnt = 0
        for bi, am, els in [(b_, a_, e_) for b_, (_s, a_, e_) in conds.items() if b_ not in fn.get("_loop_heads", ())] + anon:
            outs = [(v, t2) for v, t2 in am.items()] + [("else", els)]
            if len({t2 for _v, t2 in outs}) < 2:
                continue
            for v, t2 in outs:
                if reach(fn, [0], targets, [(bi, t2)]) is None and reach(fn, [0], targets) is not None:
                    others = [x for _w, x in outs if x != t2]
                    if any(reach(fn, [x], ok_rets, (), dead) is not None for x in others):
                        cnt += 1
        if cnt:
            k2 = _short_callee(bk)
            silent_n[k2] = max(silent_n.get(k2, 0), cnt)
    # rejects: the branch outcomes every construction of a named error variant is control dependent on (a rejection must keep consulting
    # the checks it was decided by: `Orphan` only after the parent was looked up, `OldBlock` only for a block that is in the store)
    rejects = {}
    var_blocks = collections.defaultdict(set)
    for bi, b in enumerate(fn["blocks"]):
        if b["cleanup"] or bi not in live:
            continue
        for st in b["st"]:
            if st["k"] == "assign" and st["rv"]["r"] == "agg" and "adt" in st["rv"]:
                adt = st["rv"]["adt"]
                if re.search(r"(Error|ErrorKind)$", adt) and WS.match(norm(adt)):
                    var_blocks[short(adt, 1) + "::" + st["rv"]["variant"]].add(bi)
    ok_rets0 = {b for b in rets if b not in dead}
    for var, tg in sorted(var_blocks.items()):
        per_site = []
        for site in sorted(tg):
            found = []
            for bi, (sig, am, els) in conds.items():
                outs = [(v, t2) for v, t2 in am.items()] + [("else", els)]
                if len({t2 for _v, t2 in outs}) < 2:
                    continue
                for v, t2 in outs:
                    others = [x for _w, x in outs if x != t2]
                    if reach(fn, [0], {site}, [(bi, x) for x in others]) is not None and reach(fn, [0], {site}, [(bi, t2)]) is None:
                        # only outcomes whose alternative carries on normally: a test whose other outcome is itself a rejection merely precedes this one
                        if any(reach(fn, [x], ok_rets0, (), dead) is not None for x in others) and sig not in found:
                            found.append(sig)
            if found:
                found.sort(key=lambda g: json.dumps(g))
                if found not in per_site:
                    per_site.append(found)
        if per_site:
            rejects[var] = per_site
    # flags: named boolean locals that are set in several places (`orphan_accepted`, `evict`, `rollback`) steer what happens later; for every
    # place that sets one to a constant, the branch outcomes it is control dependent on whose other outcome carries on (with multiplicity:
    # `if res.is_ok()` -> `if let Ok(Some(_)) = res` tests the same call's verdict twice)
    flags = {}
    names_by_local = {int(l): nm for l, nm in (fn.get("names") or {}).items() if str(l).isdigit()}
    for l, nm in sorted(names_by_local.items()):
        if l <= fn["argc"] or fn["locals"][l]["s"] != "bool":
            continue
        sites = []
        for bi, b in enumerate(fn["blocks"]):
            if b["cleanup"] or bi not in live:
                continue
            for st in b["st"]:
                if st["k"] == "assign" and not st["dst"]["p"] and st["dst"]["l"] == l and st["rv"]["r"] == "use" and st["rv"]["a"].get("k") == "const" and "v" in st["rv"]["a"]["v"]:
                    sites.append((bi, str(st["rv"]["a"]["v"]["v"])))
        if len(sites) < 2:
            continue
        ent = {}
        for site, val in sites:
            found = []
            for bi, (sig, am, els) in conds.items():
                outs = [(v, t2) for v, t2 in am.items()] + [("else", els)]
                if len({t2 for _v, t2 in outs}) < 2:
                    continue
                for v, t2 in outs:
                    others = [x for _w, x in outs if x != t2]
                    if reach(fn, [0], {site}, [(bi, x) for x in others]) is not None and reach(fn, [0], {site}, [(bi, t2)]) is None:
                        if any(reach(fn, [x], ok_rets0, (), dead) is not None for x in others):
                            found.append(sig)
            found.sort(key=lambda g: json.dumps(g))
            ent.setdefault(val, [])
            if found not in ent[val]:
                ent[val].append(found)
        if any(any(f for f in v) for v in ent.values()):
            flags[nm] = ent
    # assigns: origins of every value stored into a field of a parameter (`self.size = ..`, `trees.bitmap_accumulator = ..`)
    assigns = {}
    for bi, b in enumerate(fn["blocks"]):
        if b["cleanup"] or bi not in live:
            continue
        for st in b["st"]:
            if st["k"] != "assign" or not st["dst"]["p"] or not (1 <= st["dst"]["l"] <= fn["argc"] or _derives_from_param(fn, st["dst"]["l"])):
                continue
            fields = [p["f"] for p in st["dst"]["p"] if isinstance(p, dict) and "f" in p]
            if not fields or not re.match(r"^[a-z_]", fields[-1]):
                continue
            assigns.setdefault(".".join(fields), []).append(_stab(F, ex.rvalue(st["rv"], 0, ())))
        t = b["term"]
        if t["k"] == "call" and t["dst"]["p"] and (1 <= t["dst"]["l"] <= fn["argc"] or _derives_from_param(fn, t["dst"]["l"])):
            fields = [p["f"] for p in t["dst"]["p"] if isinstance(p, dict) and "f" in p]
            if fields and re.match(r"^[a-z_]", fields[-1]):
                assigns.setdefault(".".join(fields), []).append(_stab(F, ex.call(t, 0, ())))
    # ret: origins of the value a pure (non-Result) function returns
    ret = None
    ret_alts = None
    rty = fn["locals"][0]["s"]
    if not is_res and rty not in ("()", "!") and not rty.startswith("core::option::Option<alloc::boxed") and fn["kind"] != "Closure":
        e0 = ex.local(0, 0, ())
        a = _stab(F, e0)
        if 0 < len(a) <= 24:
            ret = a
            alts = list(e0.kids) if e0.kind == "phi" else [e0]
            if len(alts) <= 6:
                ret_alts = [_stab(F, x) for x in alts]
    # every stable atom the function computes with (the universe when a construct moved between a function and its closures)
    universe = set()
    for bi, t in F.calls(key):
        if bi in live:
            universe |= set(_stab(F, ex.call(t, 0, ())))
    for sig, _am, _els in conds.values():
        universe |= set(sig[1]) | set(sig[2])
    if ret:
        universe |= set(ret)
    elif rty not in ("()", "!"):
        universe |= set(_stab(F, ex.local(0, 0, ())))
    ws_calls = sorted({_short_callee(c["key"]) for c in calls if c["ws"]})
    sites = collections.Counter(_short_callee(c["key"]) for c in calls)
    gates = sorted({c["key"] for c in calls if c["kind"] in GATE or c["sink"]})
    gates_tested = sorted({c["key"] for c in calls if c["kind"] in GATE and c["kind"] != "plain-return"})  # the verdict is examined here, not handed on
    # how many Option / Result combinators consume values here (a `match` on a call's result may legitimately become one of them)
    combs = 0
    for bi, t in F.calls(key):
        if bi in live and any(re.search(r"^core::(option::Option|result::Result)::[a-z_]+$", nm) for nm in callee_names(t)):
            combs += 1
    return {"must": must, "order": order, "args": args, "guards": guards, "silent": silent, "assigns": assigns, "ret": ret,
            "consts": const_census(fn), "universe": sorted(universe), "gates": gates, "gates_tested": gates_tested, "combs": combs, "rejects": rejects, "reject_vars": sorted(var_blocks), "each": each, "loops": loops, "phase": phase, "ret_alts": ret_alts, "flags": flags, "loop_anon": loop_anon, "silent_n": silent_n, "ws_calls": ws_calls, "sites": dict(sites), "argc": fn["argc"], "is_res": bool(is_res),
            "guard_n": sorted([json.loads(g), c] for g, c in gcount.items() if c > 1), "guard_all": dict(gcount)}


def _dominators(fn):
    d = fn.get("_dom")
    if d is not None:
        return d
    live = sorted(live_blocks(fn))
    pr = preds(fn)
    full = set(live)
    dom = {b: set(full) for b in live}
    dom[0] = {0}
    changed = True
    while changed:
        changed = False
        for b in live:
            if b == 0:
                continue
            ps = [dom[p] for p in pr[b] if p in dom]
            new = (set.intersection(*ps) if ps else set()) | {b}
            if new != dom[b]:
                dom[b] = new
                changed = True
    fn["_dom"] = dom
    return dom


def loop_exit_tests(fn):
    """Switch blocks that decide whether a loop goes round again: members of a natural loop (back edge p -> h, h dominates p) with one
    outcome staying inside the loop and another leaving it. The test of an `if` nested in an enclosing loop is not one (both outcomes stay)."""
    got = fn.get("_loop_tests")
    if got is not None:
        return got
    dom = _dominators(fn)
    succ = succs(fn)
    pr = preds(fn)
    by_header = {}
    for p in dom:
        for h in succ[p]:
            if h in dom[p]:
                body = {h, p}
                st = [p]
                while st:
                    x = st.pop()
                    if x == h:
                        continue
                    for y in pr[x]:
                        if y in dom and y not in body:
                            body.add(y)
                            st.append(y)
                # back edges to the same header (`continue`) belong to one loop
                by_header.setdefault(h, set()).update(body)
    loops = list(by_header.values())
    out = set()
    heads = set()
    for bi, b in enumerate(fn["blocks"]):
        if b["term"]["k"] != "switch" or bi not in dom:
            continue
        inside = [L for L in loops if bi in L]
        if not inside:
            continue
        L = min(inside, key=len)
        tg = set(succ[bi])
        if any(t in L for t in tg) and any(t not in L for t in tg):
            out.add(bi)
            # the loop's own condition (`while c`, the `next()` of a `for`): every block of the body comes after it
            if all(x == bi or bi in dom[x] or x in dom[bi] for x in L):
                heads.add(bi)
    fn["_loop_tests"] = out
    fn["_loop_heads"] = heads
    return out


ALLOC_HINT = re.compile(r"::(with_capacity|reserve|reserve_exact)$")
INT_TY = re.compile(r"^[ui](8|16|32|64|128|size)$")


def const_census(fn):
    """Multiset of the integer literals (>= 2) and named constant items a function computes with, including integer match arms."""
    c = collections.Counter()

    def op(o):
        if o and o.get("k") == "const":
            v = o["v"]
            if "v" in v and INT_TY.match(v.get("ty", "")):
                try:
                    n = int(v["v"])
                except ValueError:
                    return
                if "item" in v:
                    if not WS.match(norm(v["item"])):
                        return  # constants of std/core internals (layout, alignment) are compiler detail, not the function's arithmetic
                    c["%s=%d" % (short(v["item"], 2), n)] += 1
                elif n >= 2:
                    c[str(n)] += 1

    live = live_blocks(fn)
    for bi, b in enumerate(fn["blocks"]):
        if b["cleanup"] or bi not in live:
            continue
        for st in b["st"]:
            if st["k"] == "assign":
                rv = st["rv"]
                for f in ("a", "b"):
                    if isinstance(rv.get(f), dict):
                        op(rv[f])
                for o in rv.get("ops", []):
                    op(o)
        t = b["term"]
        if t["k"] == "call":
            if set((t.get("span") or {}).get("macros", [])) & {"debug", "trace", "info", "warn", "error", "format", "write", "println", "panic", "assert", "assert_eq"}:
                continue
            if ALLOC_HINT.search(callee_names(t)[0] if callee_names(t) else ""):
                continue  # a pre-allocation hint: any constant is a bounded allocation (C11's R4 rule decides non-constant ones)
            for a in t["args"]:
                op(a)
        elif t["k"] == "switch":
            l = local_of(t["d"])
            if l is not None and INT_TY.match(fn["locals"][l]["s"]):
                for v, _t in t["arms"]:
                    try:
                        if int(v) >= 2:
                            c["arm:" + v] += 1
                    except ValueError:
                        pass
    return dict(c)


def _derives_from_param(fn, l):
    """The local is a (re)borrow of a parameter (`let extension = &mut ext.extension`)."""
    seen = 0
    while seen < 6:
        seen += 1
        if 1 <= l <= fn["argc"]:
            return True
        ds = defs_of(fn).get(l, [])
        if len(ds) != 1 or ds[0][0] != "st":
            return False
        rv = ds[0][2]
        if rv["r"] == "ref":
            l = rv["pl"]["l"]
        elif rv["r"] == "use" and rv["a"].get("k") in ("copy", "move"):
            l = rv["a"]["pl"]["l"]
        else:
            return False
    return False


def _is_try_switch(fn, bi):
    """The switch tests the ControlFlow produced by `Try::branch` (the `?` operator)."""
    blk = fn["blocks"][bi]
    d = local_of(blk["term"]["d"])
    src = None
    for st in reversed(blk["st"]):
        if st["k"] == "assign" and not st["dst"]["p"] and st["dst"]["l"] == d and st["rv"]["r"] == "discr":
            src = st["rv"]["pl"]["l"]
            break
    if src is None:
        return False
    for kind, b2, x in defs_of(fn).get(src, []):
        if kind == "call" and any(n.endswith("ops::try_trait::Try::branch") for n in callee_names(x)):
            return True
    return False


def _head_calls(F, e, depth=0):
    """Workspace calls whose result the tested expression is (through std plumbing: `is_ok(map(get_hash(..), ..))` -> get_hash): the calls a
    branch really tests, as opposed to the calls its operands merely derive from (a loop bound, an index)."""
    if depth > 10:
        return set()
    cur, base = ws_short_names(F)
    if e.kind == "call":
        if e.a in cur or e.a in base:
            return {e.a}
        return _head_calls(F, e.kids[0], depth + 1) if e.kids else set()
    if e.kind == "phi":
        out = set()
        for x in e.kids:
            out |= _head_calls(F, x, depth + 1)
        return out
    if e.kind in ("un", "discr", "field") and e.kids:
        return _head_calls(F, e.kids[0], depth + 1)
    return set()


def cond_signature(F, e, in_loop=True):
    """[op, lhs atoms, rhs atoms] for comparisons (canonical under polarity and operand order), ["branch", atoms, []] for any other test
    of a value (bool call, flag, `match`/`if let` on a call result); None for `?`, log tests, loop headers and tests of nothing stable."""
    txt = render(e)
    if "Try::branch" in txt or "max_level" in txt or "STATIC_MAX_LEVEL" in txt or txt.startswith("PartialOrd::le(Level::"):
        return None
    if in_loop and re.match(r"^discr\([A-Za-z0-9_:<>, ]*::next\(", txt[:60]):
        return None  # the header of a `for` loop (`Iterator::next(..)`, not `next_back` / `next_if`; `if let Some(x) = it.next()` outside a loop is a test)
    if txt.startswith("phi(0 | 1)") or txt in ("?",):
        return None
    c = as_cmp(e)
    if c:
        op, l, r = c
        la, ra = _stab(F, l), _stab(F, r)
        if not la and not ra:
            return None
        if op in ("Eq", "Ne"):
            if json.dumps(la) > json.dumps(ra):
                la, ra = ra, la
            return ["Eq", la, ra]
        if op in ("Gt", "Le"):
            return ["Gt", la, ra]
        return ["Gt", ra, la]
    ee = e
    while ee.kind == "un" and ee.a == "Not":
        ee = ee.kids[0]
    if ee.kind == "discr":
        ee = ee.kids[0]
    a = [x for x in _stab(F, ee) if not x.startswith("val:") and not x.startswith("op:")]
    if not any(x.startswith("call:") or re.match(r"^arg\d+\.", x) for x in a):
        return None
    return ["branch", a, sorted("head:" + h for h in _head_calls(F, ee))]


def scope(F, prop_record, depth=2, want_named=False):
    """Functions a property names: defined in one of its anchor files and mentioned (by method or Type::method name) in its
    mechanism list, plus the functions of the anchor files they call (transitively, `depth` levels) and the closures inside those."""
    files = set(prop_record["anchors"]["files"])
    text = " ".join(m["name"] for m in prop_record["anchors"]["mechanism"])
    words = set(re.findall(r"[A-Za-z_][A-Za-z0-9_]*", text))
    in_files = {k for k, fn in F.fns.items() if fn["span"]["file"] in files}
    # `Segmenter::{bitmap,output}_segment` and `add_*_segment` name families of methods: expand them over the methods of the anchor files
    globs = []
    for pre, alts, post in re.findall(r"([A-Za-z0-9_]*)\{([a-z0-9_, ]+)\}([A-Za-z0-9_]*)", text):
        for a in alts.split(","):
            words.add(pre + a.strip() + post)
    for g in re.findall(r"[A-Za-z0-9_]*\*[A-Za-z0-9_*]*", text):
        if len(g.replace("*", "")) >= 4 and re.match(r"^[a-z_*]", g):
            globs.append(re.compile("^" + re.escape(g).replace("\\*", "[a-z0-9_]+") + "$"))
    if globs:
        for k in in_files:
            m = re.sub(r"^.*::", "", re.sub(r"<[^<>]*>", "", re.sub(r"(::\{closure#\d+\})+$", "", k)))
            if any(g.match(m) for g in globs):
                words.add(m)
    named = set()
    by_method = collections.defaultdict(list)
    for k in in_files:
        base = re.sub(r"(::\{closure#\d+\})+$", "", k)
        m = re.sub(r"^.*::", "", re.sub(r"<[^<>]*>", "", base))
        if m in words and len(m) > 3:
            by_method[m].append(k)
    for m, ks in by_method.items():
        bases = {re.sub(r"(::\{closure#\d+\})+$", "", k) for k in ks}
        for k in ks:
            base = re.sub(r"(::\{closure#\d+\})+$", "", k)
            fn = F.fns.get(base) or F.fns[k]
            st = (fn.get("impl_self") or {}).get("s", "")
            tr = (fn.get("impl_trait") or "").split("::")[-1]
            ty = re.sub(r"<.*$", "", st).split("::")[-1]
            # a method name shared by several types counts only for the types (or traits) the property mentions;
            # serialisation impls always count (every one of them is decode/encode surface)
            if len(bases) == 1 or not st or ty in words or tr in words or tr in ("Readable", "Writeable"):
                named.add(k)
    out = set(named)
    frontier = set(named)
    for _ in range(depth):
        nxt = set()
        for k in frontier:
            for bi, t in F.calls(k):
                direct = set(callee_names(t)) | set(t.get("ncallables", ()))
                for n in callees_poly(F, t):
                    if n in in_files and n not in out:
                        if n not in direct and n in t.get("bridged", ()):
                            continue  # trait impls run by upstream generic code on behalf of a call (Clone, Debug, PartialEq, From, Iterator::next):
                            # reached by the no-reach rules (R4), but not part of the confirmed mechanism unless the property names them
                        nxt.add(n)
        out |= nxt
        frontier = nxt
    # closures of everything in scope
    for k in in_files:
        base = re.sub(r"(::\{closure#\d+\})+$", "", k)
        if base in out:
            out.add(k)
        if base in named:
            named.add(k)
    if want_named == "adjacent":
        # functions of the anchor files that directly call a named function (and their closures): the call site of a mechanism is part of it
        # (`pipe::process_block_header` decides `force_rollback` inside the closure it hands to `header_extending`)
        named_bases = {re.sub(r"(::\{closure#\d+\})+$", "", k) for k in named}
        adj = set()
        for nb in named_bases:
            for name in (nb, strip_impl(nb)):
                for (c, _bi) in F.callers.get(name, []):
                    cb = re.sub(r"(::\{closure#\d+\})+$", "", c)
                    if c in in_files and cb not in named_bases:
                        adj.add(cb)
        adjacent = {k for k in in_files if re.sub(r"(::\{closure#\d+\})+$", "", k) in adj}
        return sorted(out | adjacent), named, adjacent
    if want_named:
        return sorted(out), named
    return sorted(out)


def baseline_path(prop):
    return os.path.join(VERIF, "baseline", prop + ".json")


def _closure_role(F, k):
    """Closures are keyed by the parent function and the call that receives them (indices are not stable)."""
    fn = F.fns[k]
    if fn["kind"] != "Closure":
        return k
    parent = fn.get("parent")
    if not parent or parent not in F.fns:
        return k
    for bi, t in F.calls(parent):
        if k in t["ncallables"]:
            peers = [c for b2, t2 in F.calls(parent) if short(callee_names(t2)[0], 2) == short(callee_names(t)[0], 2) for c in t2["ncallables"] if c in F.fns]
            uniq = []
            for c in peers:
                if c not in uniq:
                    uniq.append(c)
            return "%s@%s#%d" % (_closure_role(F, parent), short(callee_names(t)[0], 2), uniq.index(k) + 1 if k in uniq else 1)
    return k


def generate(F, prop_record, named_elsewhere=()):
    """Baseline of one property. A function that the property reaches but does not name is left to the properties that do name it
    (`named_elsewhere`), so that a change is reported under the properties whose mechanism it touches."""
    out = {}
    fns, named, adjacent = scope(F, prop_record, want_named="adjacent")
    for k in fns:
        if k not in named and k not in adjacent and k in named_elsewhere:
            continue
        s = summarize(F, k)
        if s["must"] or s["order"] or s["args"] or s["guards"] or s["assigns"] or s["ret"] or s["consts"] or s["rejects"] or s["each"]:
            s["named"] = k in named
            s["narrow_checked"] = True
            s["closure"] = F.fns[k]["kind"] == "Closure"
            base_k = re.sub(r"(::\{closure#\d+\})+$", "", k)
            s["callers"] = sorted({_closure_role(F, c) for name in (k, strip_impl(k)) for (c, _bi) in F.callers.get(name, []) if c != k})[:12] if not s["closure"] else []
            s.pop("universe", None)
            s.pop("guard_all", None)
            s.pop("gates_tested", None)
            s.pop("reject_vars", None)
            out[_closure_role(F, k)] = s
    return out


def _short_callee(key):
    """`Type::method#2(arg0.field)` -> `Type::method`"""
    return re.sub(r"#\d+$", "", re.sub(r"\(.*$", "", key))


def _cluster(F, k):
    """The function, its closures (transitively) and the workspace functions it calls directly (a construct may legitimately move between them:
    a loop body becomes a closure of an iterator adaptor, a block becomes a helper)."""
    out = [k]
    seen = {k}
    frontier = [k]
    for _ in range(3):
        nxt = []
        for x in frontier:
            for _bi, t in F.calls(x):
                for c in t.get("ncallables", []):
                    if c in F.fns and c not in seen:
                        seen.add(c)
                        nxt.append(c)
        out += nxt
        frontier = nxt
    closures = list(out[1:])
    helpers = []
    for x in [k] + closures:
        for h in _direct_helpers(F, x):
            if h not in seen:
                seen.add(h)
                helpers.append(h)
    return closures, helpers


class _Cur:
    """Lazily computed summaries of the current tree."""

    def __init__(self, F):
        self.F = F
        self.s = {}

    def get(self, k):
        if k not in self.s:
            self.s[k] = summarize(self.F, k)
        return self.s[k]


def _with_local_closures(cs, closures, side):
    """Operand origins with the results of directly called local closures opened up: `let step = |c, p| c + 2 * p; .. step(current, peak) > size`
    compares what the closure computes."""
    sd = set(side)
    if any(a.startswith("call:") and a.endswith("}") for a in sd):
        for x in closures:
            sd |= set(cs.get(x)["universe"]) | set(cs.get(x).get("ret") or [])
    return sd


def _guard_present(ctx, cs, k, g, closures, helpers, relaxed=False, base_combs=None, base_calls=None):
    F = ctx.F
    cur_names, _b = ws_short_names(F)
    # helpers that can have taken a test over: functions the confirmed tree did not have, or did not call from here
    fresh = [h for h in helpers if short(h, 2) not in _b or (base_calls is not None and short(h, 2) not in base_calls)]
    g1, g2 = _live_atoms(F, g[1]), _live_atoms(F, g[2])
    pool = [k] + closures + helpers
    if g[0] == "branch":
        if not g1:
            return True
        for x in pool:
            for cg in cs.get(x)["guards"]:
                if g1 <= (set(cg[1]) | set(cg[2])):
                    return True
        # the tested calls are still made and still gate the continuation (`match f() {Err(e) => return Err(e), ..}` became `f()?`,
        # a combinator, or an iterator adaptor), and the tested fields are still read
        calls = {a[5:] for a in g1 if a.startswith("call:")}
        if calls:
            gated = set()
            # helpers that already existed on the reviewed tree gated their own calls then as well: only a new helper can have taken the test over
            for x in [k] + closures + fresh:
                gated |= {_short_callee(c) for c in cs.get(x)["gates"]}
                # a call whose result only flows on (stored, mapped, returned) does not gate anything: the test on it is gone
                gated |= {a[5:] for cg in cs.get(x)["guards"] for a in cg[1] + cg[2] if a.startswith("call:")}
            for x in closures:
                role = _closure_role(F, x)
                if re.search(r"@(?:Iterator|Option|Result)::(filter|filter_map|find|find_map|any|all|position|take_while|skip_while|map_while|and_then|is_some_and|is_ok_and)#\d+$", role):
                    # the adaptor tests what the closure returns: the calls made in the closure gate the continuation through it
                    gated |= {a[5:] for a in cs.get(x)["universe"] if a.startswith("call:")}
            if calls <= gated and not any(a.startswith("head:") for a in g[2]):
                return True
            heads = {a[5:] for a in g[2] if a.startswith("head:") and a[5:] in cur_names}
            tested = set()
            for x in [k] + closures + fresh:
                tested |= {_short_callee(c) for c in cs.get(x)["gates_tested"]}
                tested |= {a[5:] for cg in cs.get(x)["guards"] for a in cg[1] + cg[2] if a.startswith("call:")}
            for x in closures:
                if re.search(r"@(?:Iterator|Option|Result)::(filter|filter_map|find|find_map|any|all|position|take_while|skip_while|map_while|and_then|is_some_and|is_ok_and)#\d+$", _closure_role(F, x)):
                    tested |= {a[5:] for a in cs.get(x)["universe"] if a.startswith("call:")}
            if heads and heads <= tested:
                # the calls whose result the branch tested are still tested; the calls its operands merely derived from (a loop bound, an
                # index) only have to be made still
                uni0 = set()
                for x in [k] + closures:
                    uni0 |= {a[5:] for a in cs.get(x)["universe"] if a.startswith("call:")}
                if calls <= (gated | uni0):
                    return True
            if base_combs is not None:
                # a `match` / `if let` that only selected a value (`match r { Ok(h) => h, Err(_) => 0 }`) written as a combinator (`r.unwrap_or(0)`):
                # the calls are still made and the function consumes more Option / Result values through combinators than it did
                uni = set()
                for x in [k] + closures:
                    uni |= {a[5:] for a in cs.get(x)["universe"] if a.startswith("call:")}
                if calls <= uni and sum(cs.get(x)["combs"] for x in [k] + closures) > base_combs:
                    return True
            return False
        uni = set()
        for x in pool:
            uni |= set(cs.get(x)["universe"])
        return g1 <= uni
    if not g1 and not g2:
        return True
    for x in [k] + closures:
        for cg in cs.get(x)["guards"]:
            if cg[0] != g[0]:
                continue
            c1, c2 = _with_local_closures(cs, closures, cg[1]), _with_local_closures(cs, closures, cg[2])
            if g1 <= c1 and g2 <= c2:
                return True
            if g[0] == "Eq" and g1 <= c2 and g2 <= c1:
                return True
            # a plain value may sit on either side (`let mut n = 0; while n == 0 { n = f() }` tests phi(0, f()) == 0; `if f() == 0` tests f() == 0):
            # operators, fields, parameters and calls stay side-respecting
            def _req(side):
                # a bare parameter (`self` handed to a helper that may not even use it) is required only when it is all the side derives from
                nv = {a for a in side if not a.startswith("val:")}
                rich = {a for a in nv if not re.match(r"^arg\d+$", a)}
                return rich if rich else nv
            nv1, nv2 = _req(g1), _req(g2)
            vals = {a for a in g1 | g2 if a.startswith("val:")}
            if (nv1 or nv2) and vals <= (c1 | c2):
                if (nv1 <= c1 and nv2 <= c2) or (g[0] == "Eq" and nv1 <= c2 and nv2 <= c1):
                    return True
    if _guard_in_helper(ctx, k, [g[0], sorted(g1), sorted(g2)], closures):
        return True
    # the comparison moved into a closure (a loop body became the closure of an iterator adaptor): parameter paths do not carry over,
    # fields, values and operators of each side must; the calls that fed the operands must still be made somewhere in the cluster
    uni = set()
    for x in pool:
        uni |= set(cs.get(x)["universe"])
    def loc(side):
        return {a for a in side if not a.startswith("arg") and not a.startswith("call:")}
    def calls(side):
        return {a for a in side if a.startswith("call:")}
    if (calls(g1) | calls(g2)) <= uni:
        for x in (closures + [k] if relaxed else closures):
            for cg in cs.get(x)["guards"]:
                if cg[0] != g[0]:
                    continue
                for (s1, s2) in (((cg[1], cg[2]),) + (((cg[2], cg[1]),) if g[0] == "Eq" else ())):
                    d1, d2 = loc(g1) & set(s1), loc(g2) & set(s2)
                    # an operand may reach the closure through the adaptor chain (`filter_map(..).find(|h| h > height)`): what is not
                    # visible on the closure's own operand must be computed elsewhere in the cluster
                    if (d1 or d2) and (loc(g1) - d1) <= uni and (loc(g2) - d2) <= uni and (d1 or not loc(g1) or d2 == loc(g2)) :
                        return True
    # the comparison is the predicate of an iterator adaptor now (`for p in v.windows(2) { if p[0] == p[1] {..} }` -> `v.windows(2).any(|p| p[0] == p[1])`):
    # the closure only sees its parameter; everything the operands derived from is computed in the cluster
    if (calls(g1) | calls(g2)) <= uni and (loc(g1) | loc(g2)) <= uni:
        for x in closures:
            if re.search(r"@(?:Iterator|DoubleEndedIterator|Itertools|Option|Result)::(any|all|find|find_map|position|filter|filter_map|take_while|skip_while|map_while|is_some_and|is_ok_and|is_none_or)#\d+$", _closure_role(F, x)):
                if any(cg[0] == g[0] for cg in cs.get(x)["guards"]) or (g[0] in ("Eq", "Gt") and any(c0 in CMP_RET for c0 in cs.get(x).get("ret_ops", []))):
                    return True
    # a comparison against nothing stable (`x == None`, `v.len() == 0`) may be written as a predicate call (`x.is_none()`, `v.is_empty()`)
    if not g1 or not g2:
        side = g1 or g2
        for x in pool:
            for cg in cs.get(x)["guards"]:
                if side <= (set(cg[1]) | set(cg[2])):
                    return True
    return False


def check(ctx, prop, also=()):
    """Compare the current tree with the committed baseline of `prop`. `also` = [(other property, function-name regex)]: entries of a
    neighbouring property's baseline that this property's statement covers although its mechanism list does not name them."""
    F = ctx.F
    p = baseline_path(prop)
    if not os.path.exists(p):
        return ctx.lost("baseline", "R9", None, "confirmed-instance baseline", "baseline file missing: " + p)
    base = json.load(open(p))
    for other, rx in also:
        po = baseline_path(other)
        if not os.path.exists(po):
            return ctx.lost("baseline", "R9", None, "confirmed-instance baseline", "baseline file missing: " + po)
        extra = {k: v for k, v in json.load(open(po)).items() if re.search(rx, k) and k not in base}
        if not extra:
            return ctx.lost("baseline", "R9", None, "confirmed-instance baseline", "no entry of %s matches %s" % (other, rx))
        base.update(extra)
    roles = {}
    for k in F.fns:
        roles.setdefault(_closure_role(F, k), k)
    cur_names, _bn = ws_short_names(F)
    cs = _Cur(F)
    n = collections.Counter()
    bad = 0
    for role, b in sorted(base.items()):
        k = roles.get(role)
        if k is None and (not b.get("named", True) or b.get("closure")):
            # a helper the property does not name, or a closure, was renamed, inlined or removed: its callers' summaries still constrain the behaviour
            ctx.stats["baseline_helpers_gone"] = ctx.stats.get("baseline_helpers_gone", 0) + 1
            continue
        if k is None:
            # a named function is gone: tolerated when every caller it had now passes the gates and state changes it used to pass (it was inlined)
            callers = [roles.get(c) for c in b.get("callers", [])]
            callers = [c for c in callers if c]
            okc = bool(callers)
            for c in callers:
                have = set(cs.get(c)["must"]) | {x for cl in _cluster(F, c)[0] for x in cs.get(cl)["must"]}
                have = {_short_callee(x) for x in have}
                for m in b["must"]:
                    mc = _short_callee(m)
                    if mc in have or mc not in cur_names or ctx.ensures(c, pat("re:(?:^|::|<| )%s$" % re.escape(mc)), 2):
                        continue
                    okc = False
            if okc:
                ctx.stats["baseline_named_inlined"] = ctx.stats.get("baseline_named_inlined", 0) + 1
                continue
            bad += 1
            ctx.record("baseline", "R9", role, "function named by the property is present", "anchor-lost", [], ["function not found (renamed or removed) and its callers do not pass its checks themselves: " + role], key_detail="lost:" + role)
            continue
        ctx.fn_seen.add(k)
        cur = cs.get(k)
        fn = F.fns[k]
        where = fn_loc(fn)
        closures, helpers = _cluster(F, k)
        # ---- must (helper / closure tolerance: a callee or a closure of this function ensures the call)
        cl_must = {_short_callee(x) for cl in closures for x in cs.get(cl)["must"]}
        cur_must_short = {_short_callee(x) for x in cur["must"]}
        kind_changed = b.get("is_res") is not None and bool(b["is_res"]) != bool(cur.get("is_res"))
        for m in b["must"]:
            n["must"] += 1
            if kind_changed:
                continue  # the function turned from Result-returning into something else (or back): which exits are "error exits" is not comparable
            mc = _short_callee(m)
            if m in cur["must"] or mc in cur_must_short:
                continue
            if _is_ws_short(F, mc) and mc not in cur_names:
                continue  # the callee no longer exists (inlined or renamed): its own checks are what its callers' entries constrain
            if mc in cl_must:
                continue
            if ctx.ensures(k, pat("re:(?:^|::|<| )%s$" % re.escape(mc)), 2):
                continue
            mw = re.match(r"^ByteOrder::write_([ui]\d+)$", mc)
            if mw and ctx.ensures(k, pat("re:<impl %s>::to_[bl]e_bytes$" % mw.group(1)), 2):
                continue  # std respelling of the same encoder (`BigEndian::write_u32(&mut b, n)` = `b = n.to_be_bytes()`); the key never named the byte order
            if b.get("closure") and roles.get(role.split("@")[0]):
                par = roles[role.split("@")[0]]
                pm = {_short_callee(x) for x in cs.get(par)["must"]} | {_short_callee(x) for cl in _cluster(F, par)[0] for x in cs.get(cl)["must"]}
                if mc in pm:
                    continue
            bad += 1
            ctx.record("baseline-must", "R9", k, "%s: every non-error exit passes a successful %s" % (short(k, 2), m), "violation", [where],
                       ["on the confirmed tree every non-error exit of %s passed %s; now an exit avoids it (call dropped, made conditional, or its result ignored)" % (k, m)],
                       key_detail="must:" + m)
        # ---- order
        cur_order = {tuple(x) for x in cur["order"]}
        cur_sinks = {_short_callee(x) for x in cur["args"]} | {_short_callee(x) for pair in cur["order"] for x in pair[1:]} | {_short_callee(x) for x in cur["gates"]}
        for a, bk in b["order"]:
            n["order"] += 1
            if (a, bk) in cur_order:
                continue
            ac, bc = _short_callee(a), _short_callee(bk)
            if (_is_ws_short(F, ac) and ac not in cur_names) or (_is_ws_short(F, bc) and bc not in cur_names):
                continue  # one of the two no longer exists
            targets = {bi for bi, t in F.calls(k) if _short_callee(call_key(fn, t, plain_for(F, k))) == bc}
            if not targets:
                continue  # the state change is gone from this function (vacuous; a dropped state change is a `must` matter)
            rx = pat("re:(?:^|::|<| )%s$" % re.escape(ac))
            sites = ctx._call_blocks(k, rx, 2)
            cuts = []
            for bi, _how in sites:
                cuts += success_edges(fn, bi)[0]
            dead_k = error_exit_blocks(fn) if is_result_ty(fn["locals"][0]["s"]) else set()
            if cuts and reach(fn, [0], targets, cuts, dead_k) is None:
                continue
            bad += 1
            p2 = reach(fn, [0], targets, cuts, dead_k)
            ctx.record("baseline-order", "R9", k, "%s: %s succeeds before %s" % (short(k, 2), a, bk), "violation", [where],
                       ["on the confirmed tree every path to %s passed a successful %s; now a path reaches it without" % (bk, a)] + (path_locs(fn, p2) if p2 else []),
                       key_detail="order:%s>%s" % (a, bk))
        # ---- each: A is passed again between consecutive executions of B
        for a, bk in b.get("each", []):
            n["each"] += 1
            if [a, bk] in cur.get("each", []):
                continue
            ac, bc = _short_callee(a), _short_callee(bk)
            if (_is_ws_short(F, ac) and ac not in cur_names) or (_is_ws_short(F, bc) and bc not in cur_names):
                continue
            tb = [(bi, t) for bi, t in F.calls(k) if _short_callee(call_key(fn, t, plain_for(F, k))) == bc]
            rx = pat("re:(?:^|::|<| )%s$" % re.escape(ac))
            cuts = []
            for bi, _how in ctx._call_blocks(k, rx, 2):
                e_, kind_ = success_edges(fn, bi)
                cuts += e_ if kind_ not in ("unchecked", "diverges") else [(bi, fn["blocks"][bi]["term"]["t"])]
            for bi, t in tb:
                if t["t"] is None or t["t"] < 0 or reach(fn, [t["t"]], {bi}) is None:
                    continue  # B no longer sits in a loop of this function (vacuous)
                p2 = reach(fn, [t["t"]], {bi}, cuts)
                if p2 is not None:
                    bad += 1
                    ctx.record("baseline-each", "R9", k, "%s: %s is passed again before every further %s" % (short(k, 2), a, bk), "violation", [where],
                               ["on the confirmed tree every loop iteration passed %s before %s; now %s can run again without it (the call was hoisted out of the loop or made conditional)" % (a, bk, bk)] + path_locs(fn, p2),
                               key_detail="each:%s>%s" % (a, bk))
                    break
        # ---- phase: whether the first B sees the initial value or A's result
        cur_phase = {(x[0], x[1]): x[2] for x in cur.get("phase", [])}
        for a, bk, init in b.get("phase", []):
            n["phase"] += 1
            now = cur_phase.get((a, bk))
            if now is None or now == init:
                continue  # one of the two is gone, or B no longer consumes A's result (vacuous)
            if [a, bk, init] in cur.get("phase", []):
                continue
            bad += 1
            ctx.record("baseline-phase", "R9", k, "%s: %s %s run before the first %s" % (short(k, 2), bk, "can" if init else "cannot", a), "violation", [where],
                       [("on the confirmed tree %s consumed the result of %s but could run before any %s (first on the initial value, then on each result); now %s always runs first: "
                         "the initial element is skipped and the walk is shifted by one" % (bk, a, a, a)) if init else
                        ("on the confirmed tree every %s ran on a result of %s; now the first %s runs before any %s (on the initial value): the walk is shifted by one" % (bk, a, bk, a))],
                       key_detail="phase:%s>%s" % (a, bk))
        # ---- args: per callee, the origins of each argument (matched against every call of that callee in the function and its closures)
        cur_args = collections.defaultdict(list)
        for ck, alts in cur["args"].items():
            cur_args[_short_callee(ck)] += [(k, alt) for alt in alts]
        for x in closures:
            # a call that moved from the function into one of its closures (loop body -> iterator adaptor) is compared there
            for ck, alts in cs.get(x)["args"].items():
                if _short_callee(ck) not in {_short_callee(c) for c in cur["args"]} and _closure_role(F, x) not in base:
                    cur_args[_short_callee(ck)] += [(x, alt) for alt in alts]
        base_args = collections.defaultdict(list)
        for bk, alts in b["args"].items():
            base_args[_short_callee(bk)] += alts
        for bc, balts in sorted(base_args.items()):
            for (x, cur_alt) in cur_args.get(bc, []):
                n["args"] += 1
                okay = False
                best = None
                for base_alt in balts:
                    if len(base_alt) != len(cur_alt):
                        continue
                    def _opened(cy):
                        # what a directly called workspace function computes with stands in for the call (`prev + shift` computed inline or by
                        # the helper that already did exactly that)
                        sd = set(cy)
                        for h in helpers:
                            if "call:" + short(h, 2) in sd:
                                sd |= set(cs.get(h)["universe"]) | set(cs.get(h).get("ret") or [])
                        # a `mut` parameter the body reassigns stands for every value assigned to it (the confirmed tree may have used a local for that)
                        fx = F.fns[x]
                        for a_ in list(sd):
                            m_ = re.match(r"^arg(\d+)$", a_)
                            if m_ and int(m_.group(1)) + 1 <= fx["argc"]:
                                for kind_, _bi, xx in defs_of(fx).get(int(m_.group(1)) + 1, [])[:6]:
                                    ex_ = plain_for(F, x)
                                    sd |= set(_stab(F, ex_.rvalue(xx, 0, ()) if kind_ == "st" else ex_.call(xx, 0, ())))
                        return sd
                    miss = [sorted({a for a in _live_atoms(F, bx) if not a.startswith("narrow:")} - _opened(cy) - ({a for a in bx if a.startswith("arg")} if x != k else set())) for bx, cy in zip(base_alt, cur_alt)]
                    if not any(miss):
                        # a new filtering / truncating adaptor on the way into the call: part of the data no longer reaches the state change
                        extra = [sorted({a for a in cy if a.startswith("narrow:")} - set(bx)) for bx, cy in zip(base_alt, cur_alt)]
                        sink_was_conditional = any(_short_callee(sk) == bc for sk in b.get("silent", {}))
                        # (a sink that already ran only for some elements tolerates one more filter; a *different* selector in the place of a
                        # confirmed one - `last()` replaced by `find(..)` - changes which element the state change is applied to)
                        replaced = any(ex_ and any(a.startswith("narrow:") and a not in cy for a in bx) for bx, cy, ex_ in zip(base_alt, cur_alt, extra))
                        moved = False
                        if any(extra) and not replaced:
                            # a confirmed branch of this function now lives in the closure of a filtering adaptor (`for x in it { if let Some(y) = f(x) { v.push(y) } }`
                            # became `it.filter_map(f).collect()`): the adaptor is that branch
                            filt = [c_ for c_ in closures if re.search(r"@(?:Iterator|DoubleEndedIterator|Itertools)::(filter|filter_map|take_while|skip_while|find|find_map|map_while)#\d+$", _closure_role(F, c_))]
                            if filt:
                                own = cur["guards"]
                                for g_ in b.get("guards", []):
                                    if g_[0] != "branch":
                                        continue
                                    heads_ = {a for a in g_[2] if a.startswith("head:")}
                                    n_base = sum(1 for g2_ in b.get("guards", []) if g2_[0] == "branch" and heads_ <= set(g2_[2]))
                                    n_own = sum(1 for cg in own if cg[0] == "branch" and heads_ <= set(cg[2]))
                                    if not heads_ or n_own >= n_base:
                                        continue  # the verdict of that call is still tested in the function itself as often as before
                                    calls_ = {"call:" + a[5:] for a in heads_}
                                    if any(calls_ <= set(cs.get(c_)["universe"]) for c_ in filt):
                                        moved = True
                                        break
                        if any(extra) and "narrow_checked" in b and (not sink_was_conditional or replaced) and not moved:
                            best = [["+" + a for a in ex_] for ex_ in extra]
                            break
                        okay = True
                        break
                    if best is None or sum(map(len, miss)) < sum(map(len, best)):
                        best = miss
                if okay or best is None:
                    continue
                bad += 1
                ctx.record("baseline-args", "R9", k, "%s: arguments of %s keep their origins" % (short(k, 2), bc), "violation", [where],
                           [("argument %d now passes through the new narrowing adaptor(s) %s: part of the data no longer reaches %s" % (i, d, bc)) if d and d[0].startswith("+") else
                            ("argument %d no longer derives from %s (now from %s)" % (i, d, cur_alt[i][:8])) for i, d in enumerate(best) if d],
                           key_detail="args:" + bc)
        # ---- guards
        parent = roles.get(role.split("@")[0]) if b.get("closure") else None
        sig_changed = b.get("argc") is not None and b["argc"] != fn["argc"]
        for g in b.get("guards", []):
            n["guards"] += 1
            if sig_changed:
                # the (private) function takes different parameters now: positional parameter atoms cannot be compared
                g = [g[0], [a for a in g[1] if not a.startswith("arg")], [a for a in g[2] if not a.startswith("arg")]]
                if not g[1] and not g[2]:
                    continue
            if _guard_present(ctx, cs, k, g, closures, helpers, base_combs=b.get("combs"), base_calls=b.get("ws_calls")):
                continue
            if parent and parent != k:
                # closures are addressed by the adaptor call that receives them; when that call was rewritten the role may now name a
                # different closure: the test has to exist somewhere in the parent function or its closures
                pcl, phl = _cluster(F, parent)
                if _guard_present(ctx, cs, parent, g, pcl, phl, relaxed=True):
                    continue
            bad += 1
            ctx.record("baseline-guard", "R9", k, "%s: branch condition %s(%s ; %s) is present" % (short(k, 2), g[0], ",".join(g[1])[:80], ",".join(g[2])[:80]), "violation", [where],
                       ["on the confirmed tree %s branched on %s(%s ; %s); no branch with this operator and these operand origins remains (guard removed, weakened or its operands re-sourced)"
                        % (k, g[0], g[1], g[2]), "current conditions: %s" % [c for c in cur["guards"] if c[0] == g[0]][:4]], key_detail="guard:%s:%s:%s" % (g[0], ",".join(g[1])[:60], ",".join(g[2])[:60]))
        # ---- loops: a confirmed loop test still decides a loop (not a single-shot `if`)
        for g in b.get("loops", []):
            n["loops"] += 1
            g1, g2 = _live_atoms(F, g[1]), _live_atoms(F, g[2])

            def same(cg):
                if cg[0] != g[0]:
                    return False
                c1, c2 = _with_local_closures(cs, closures, cg[1]), _with_local_closures(cs, closures, cg[2])
                return (g1 <= c1 and g2 <= c2) or (g[0] == "Eq" and g1 <= c2 and g2 <= c1)
            here = [cg for cg in cur["guards"] if same(cg)]
            if not here:
                continue  # the test is gone from this function (moved into a closure / helper, or removed: the guard facet's matter)
            if any(same(cg) for cg in cur.get("loops", [])):
                continue
            def loose(cg):
                # parameter paths and call origins do not carry over into a closure or an extracted helper
                if cg[0] != g[0]:
                    return False
                a1 = {z for z in g1 if not (z.startswith("arg") or z.startswith("call:"))}
                a2 = {z for z in g2 if not (z.startswith("arg") or z.startswith("call:"))}
                return (a1 <= set(cg[1]) and a2 <= set(cg[2])) or (g[0] == "Eq" and a1 <= set(cg[2]) and a2 <= set(cg[1]))
            if any(loose(cg) for x in closures + helpers for cg in cs.get(x).get("loops", [])):
                continue
            if cur.get("loop_anon", 0) > b.get("loop_anon", 0):
                continue  # the verdict now reaches the loop exit through a boolean temporary (`is_ok()` -> `matches!(.., Ok(_))`)
            _cn2, base_names2 = ws_short_names(F)
            if any(cs.get(x).get("loops") and short(x, 2) not in base_names2 for x in helpers):
                continue  # the loop was extracted into a function the confirmed tree did not have: its body is held to nothing here
            bad += 1
            ctx.record("baseline-loop", "R9", k, "%s: the loop test %s(%s ; %s) still decides a loop" % (short(k, 2), g[0], ",".join(g[1])[:70], ",".join(g[2])[:70]), "violation", [where],
                       ["on the confirmed tree %s repeated a loop body for as long as %s(%s ; %s) held; the test is still made but no longer re-evaluated after the body "
                        "(`while` became `if`: the body runs at most once)" % (k, g[0], g[1], g[2])], key_detail="loop:%s:%s:%s" % (g[0], ",".join(g[1])[:60], ",".join(g[2])[:60]))
        # ---- guard multiplicity: several distinct tests can share one signature (`k == i`, `j == i`, `uvs[j] == uvs[i]` in the cycle walk):
        # as many comparisons with that operator and those operand origins remain, here, in the closures or in directly called helpers
        for g, cnt in b.get("guard_n", []):
            n["guard_n"] += 1
            have = 0
            g1, g2 = _live_atoms(F, g[1]), _live_atoms(F, g[2])
            for x in [k] + closures + helpers:
                xs = cs.get(x)
                loose = x != k  # parameter paths do not carry over into closures / helpers
                for cg_s, c_n in xs.get("guard_all", {}).items():
                    cg = json.loads(cg_s)
                    if cg[0] != g[0]:
                        continue
                    def sub(a_, b_):
                        a2 = {z for z in a_ if not (loose and (z.startswith("arg") or z.startswith("call:")))}
                        return a2 <= set(b_)
                    if not loose:
                        # in the function itself a signature is counted exactly (a richer comparison is a different test) - unless an operand
                        # now comes out of a directly called local closure, whose body is opened up
                        if set(cg[1]) == g1 and set(cg[2]) == g2 or (g[0] == "Eq" and set(cg[1]) == g2 and set(cg[2]) == g1):
                            have += c_n
                        elif any(a.startswith("call:") and a.endswith("}") for a in cg[1] + cg[2]):
                            c1, c2 = _with_local_closures(cs, closures, cg[1]), _with_local_closures(cs, closures, cg[2])
                            if (g1 <= c1 and g2 <= c2) or (g[0] == "Eq" and g1 <= c2 and g2 <= c1):
                                have += c_n
                    elif (sub(g1, cg[1]) and sub(g2, cg[2])) or (g[0] == "Eq" and sub(g1, cg[2]) and sub(g2, cg[1])):
                        have += c_n
            if have < cnt:
                have += _count_in_helpers(ctx, k, [g[0], sorted(g1), sorted(g2)], closures)
            if have >= cnt:
                continue
            bad += 1
            ctx.record("baseline-guard-count", "R9", k, "%s: %d comparisons %s(%s ; %s) remain" % (short(k, 2), cnt, g[0], ",".join(g[1])[:60], ",".join(g[2])[:60]), "violation", [where],
                       ["on the confirmed tree %s made %d distinct comparisons with operator %s and these operand origins; now only %d remain (one of the tests was dropped)" % (k, cnt, g[0], have)],
                       key_detail="guardn:%s:%s:%s" % (g[0], ",".join(g[1])[:50], ",".join(g[2])[:50]))
        # ---- silent: a state change must not become conditional on a new non-rejecting condition
        base_cores = []
        for bk, conds in b.get("silent", {}).items():
            for (bs, _arm) in conds:
                base_cores.append(_core(F, bs))
        base_guard_cores = [_core(F, g) for g in b.get("guards", [])]
        base_sinks = {_short_callee(x) for x in b.get("args", {})} | {_short_callee(x) for x in b.get("must", [])} | {_short_callee(x) for x in b.get("gates", [])}
        for bk, cur_conds in cur.get("silent", {}).items():
            if _short_callee(bk) not in base_sinks:
                continue  # a new state-changing call: nothing confirmed about it
            sc_ = _short_callee(bk)
            n_base_sites = b.get("sites", {}).get(sc_, 0)
            n_cur_sites = cur.get("sites", {}).get(sc_, 0)
            if n_base_sites and n_cur_sites < n_base_sites:
                continue  # some of the confirmed call sites left the function (moved into an adaptor closure or a helper): "reached only when" now describes fewer sites
            cur_cores = [_core(F, sg) for (sg, _a) in cur_conds]
            refined = set()
            for (sig, arm) in sorted(cur_conds, key=lambda x: len(_core(F, x[0]))):
                n["silent"] += 1
                core = _core(F, sig)
                if not core:
                    continue
                def _weighty(cset):
                    return any(a_.startswith("call:") or a_.startswith("field:") for a_ in cset)
                own_cores = [_core(F, bs) for sk, conds in b.get("silent", {}).items() if _short_callee(sk) == _short_callee(bk) for (bs, _a) in conds]
                if any(core <= bc_ for bc_ in own_cores):
                    continue
                # a confirmed condition may have been refined (`a` -> `a && b` evaluated as one test): one richer condition per confirmed one,
                # and only when the confirmed condition itself is no longer there unchanged (otherwise the richer one is a new, separate test)
                slot = None
                for bi_, bc_ in enumerate(base_cores):
                    if bc_ and _weighty(bc_) and bc_ < core and bi_ not in refined and not any(cc == bc_ for cc in cur_cores):
                        slot = bi_
                        break
                if slot is not None:
                    refined.add(slot)
                    continue
                if any(core <= gc for gc in base_guard_cores if gc):
                    # the condition itself is a confirmed one; it now also governs this call only if the call sat under it before
                    same_sink = [conds for sk, conds in b.get("silent", {}).items() if _short_callee(sk) == _short_callee(bk)]
                    if any(core <= _core(F, bs) or _core(F, bs) <= core for conds in same_sink for (bs, _a) in conds):
                        continue
                if "silent_n" in b and cur.get("silent_n", {}).get(_short_callee(bk), 0) <= b["silent_n"].get(_short_callee(bk), 0):
                    continue  # as many outcomes skip the call as on the confirmed tree: a condition became nameable (or was respelled), none was added
                bad += 1
                ctx.record("baseline-silent", "R9", k, "%s: %s is not skipped under a new condition" % (short(k, 2), bk), "violation", [where],
                           ["%s is now reached only when %s(%s ; %s) takes arm %s, and the other outcome carries on without it (on the confirmed tree it was not conditional on this)"
                            % (bk, sig[0], sig[1], sig[2], arm)], key_detail="silent:%s:%s" % (_short_callee(bk), sig[0]))
        # ---- rejects: every confirmed construction site of a named rejection still exists with the outcomes it depended on (new sites are additions)
        for var, bsites in b.get("rejects", {}).items():
            csites = cur.get("rejects", {}).get(var)
            if csites is None:
                if var not in cur.get("reject_vars", []):
                    continue  # the variant is no longer constructed here (moved into a helper, or the rejection is gone: a guard/must matter)
                csites = [[]]
            for bsigs in bsites:
                n["rejects"] += 1
                bcs = [(bs, _core(F, bs)) for bs in bsigs]
                bcs = [(bs, bc) for bs, bc in bcs if bc]
                best = None
                for csigs in csites:
                    ccores = [(_core(F, cg), cg) for cg in csigs]
                    miss = []
                    for bs, bc in bcs:
                        if any(bc <= cc for cc, _cg in ccores):
                            continue
                        calls = {a for a in bc if a.startswith("call:")}
                        if calls and bs[0] == "branch" and any(calls <= cc for cc, _cg in ccores):
                            continue
                        miss.append(bs)
                    if best is None or len(miss) < len(best):
                        best = miss
                    if not miss:
                        break
                if best:
                    # the test moved into a closure of an iterator adaptor or into a helper (its verdict reaches the rejection through the
                    # adaptor's result): tolerated when the function itself no longer makes the comparison but its cluster does
                    own = cur["guards"]
                    def in_own(g):
                        c0 = _core(F, g)
                        return any(cg[0] == g[0] and c0 <= _core(F, cg) for cg in own)
                    best = [bs for bs in best if in_own(bs) or not _guard_present(ctx, cs, k, bs, closures, helpers)]
                if best and any(var in cs.get(x).get("reject_vars", []) for x in closures):
                    # the rejection is built in the closure of a combinator now (`opt.ok_or_else(|| Error::Other(..))`): the combinator is the test
                    best = [bs for bs in best if not (bs[0] == "branch" and {"call:" + h[5:] for h in bs[2] if h.startswith("head:")} <= set().union(*[set(cs.get(x2)["universe"]) for x2 in [k] + closures]))]
                if not best:
                    continue
                bs = best[0]
                bad += 1
                ctx.record("baseline-reject", "R9", k, "%s: the rejection %s still depends on %s(%s ; %s)" % (short(k, 2), var, bs[0], ",".join(bs[1])[:70], ",".join(bs[2])[:50]), "violation", [where],
                           ["on the confirmed tree this construction of %s in %s was control dependent on an outcome of %s(%s ; %s) whose other outcome carries on; now no construction of %s depends on it "
                            "(the rejection was hoisted above / detached from the check that justified it)" % (var, k, bs[0], bs[1], bs[2], var)],
                           key_detail="reject:%s:%s:%s" % (var, bs[0], ",".join(sorted(_core(F, bs)))[:70]))
        # ---- flags: a named boolean is set under the confirmed conditions, not under more of them
        for nm, bent in b.get("flags", {}).items():
            cent = cur.get("flags", {}).get(nm)
            if not cent:
                continue  # the local is gone or renamed (vacuous)
            for val, bsites in bent.items():
                for csigs in cent.get(val, []):
                    n["flags"] += 1
                    def fkey(sg):
                        # a test of a call's verdict is that call's test however its operands are spelled; a comparison is its operator and origins
                        calls_ = frozenset(a for a in list(sg[1]) + list(sg[2]) if a.startswith("call:"))
                        if sg[0] == "branch" and sg[2]:
                            return ("h", frozenset(sg[2]), None, calls_)
                        return ("c", sg[0], frozenset(_core(F, sg)), calls_)

                    def fmatch(ck, bk_):
                        if ck[0] != bk_[0]:
                            # the verdict of a call tested by matching on it, or by comparing what it returned (`r.err() == Some(E)`): the same call's test
                            h_, c_ = (ck, bk_) if ck[0] == "h" else (bk_, ck)
                            return any("call:" + x[5:] in c_[3] for x in h_[1])
                        if ck[0] == "h":
                            return ck[1] == bk_[1]
                        return ck[1] == bk_[1] and (ck[2] <= bk_[2] or bk_[2] <= ck[2])
                    ccores = [(fkey(cg), cg) for cg in csigs if _core(F, cg)]
                    okay = False
                    worst = None
                    for bsigs in bsites:
                        pool = [fkey(bs) for bs in bsigs]
                        extra = None
                        for cc, cg in ccores:
                            hit = next((i for i, bc in enumerate(pool) if bc is not None and fmatch(cc, bc)), None)
                            if hit is None:
                                extra = cg
                                break
                            pool[hit] = None
                        if extra is None:
                            okay = True
                            break
                        worst = worst or extra
                    if okay or worst is None:
                        continue
                    if not any(a_.startswith(("call:", "field:")) for a_ in _core(F, worst)):
                        continue
                    bad += 1
                    ctx.record("baseline-flag", "R9", k, "%s: `%s = %s` is decided by the confirmed tests only" % (short(k, 2), nm, val), "violation", [where],
                               ["on the confirmed tree `%s` was set to %s under %s; now this also depends on %s(%s ; %s) (one more test than confirmed, e.g. the payload of a verdict that was "
                                "only tested for success), and the other outcome carries on with the flag unset" % (nm, val, [[g[0], g[2] or g[1][:3]] for g in (bsites[0] if bsites else [])][:4], worst[0], worst[1][:6], worst[2][:3])],
                               key_detail="flag:%s=%s:%s" % (nm, val, worst[0]))
        # ---- assigns
        for field, alts in b.get("assigns", {}).items():
            cur_alts = cur.get("assigns", {}).get(field)
            if not cur_alts:
                continue  # the field is no longer written here (vacuous; a dropped write shows up in the hand tables / must set)
            for ca in cur_alts:
                n["assign"] += 1
                if any(_live_atoms(F, ba) <= set(ca) for ba in alts):
                    continue
                bad += 1
                ctx.record("baseline-assign", "R9", k, "%s: the value stored into .%s keeps its origins" % (short(k, 2), field), "violation", [where],
                           ["on the confirmed tree .%s was assigned from %s; now from %s" % (field, alts[:2], ca)], key_detail="assign:" + field)
        # ---- consts, by value, over the function, its closures and direct helpers
        want = collections.Counter()
        for kk, cnt in b.get("consts", {}).items():
            want[_const_value(kk)] += cnt
        have = collections.Counter()
        for kk, cnt in cur.get("consts", {}).items():
            have[_const_value(kk)] += cnt
        missing = {v: c for v, c in want.items() if have.get(v, 0) < c}
        if missing:
            for x in closures + helpers:
                for kk, cnt in cs.get(x)["consts"].items():
                    have[_const_value(kk)] += cnt
            missing = {v: c for v, c in want.items() if have.get(v, 0) < c}
        n["consts"] += len(want)
        if missing:
            bad += 1
            ctx.record("baseline-consts", "R9", k, "%s: integer literals, named constants and match-arm values are kept" % short(k, 2), "violation", [where],
                       ["on the confirmed tree %s computed with the values %s; these are gone or occur less often (now: %s)" % (k, dict(missing), {v: c for v, c in have.items() if v in missing})],
                       key_detail="consts:" + ",".join(sorted(missing))[:80])
        # ---- ret
        if b.get("ret") and cur.get("ret") is not None:
            n["ret"] += 1
            need = _live_atoms(F, b["ret"])
            have_r = set(cur["ret"])
            if not need <= have_r:
                for x in closures + helpers:
                    have_r |= set(cs.get(x)["universe"]) | set(cs.get(x).get("ret") or [])
            if not need <= have_r:
                bad += 1
                ctx.record("baseline-ret", "R9", k, "%s: the returned value keeps its origins and operators" % short(k, 2), "violation", [where],
                           ["on the confirmed tree the result derived from %s; now from %s (missing %s)" % (b["ret"], cur["ret"], sorted(need - have_r))],
                           key_detail="ret")
        # ---- ret_alts: every way the result of a pure function is computed is one of the confirmed ways (a new early `return other_measure()`)
        if b.get("ret_alts") and cur.get("ret_alts"):
            base_alts = [_live_atoms(F, ba) for ba in b["ret_alts"]]
            _cn, base_names = ws_short_names(F)
            for ca in cur["ret_alts"]:
                n["ret_alts"] += 1
                cset = set(ca)
                if not any(a.startswith(("arg", "field:", "call:")) for a in cset):
                    continue  # a constant result (an early default) is an addition
                if any(ba <= cset for ba in base_alts):
                    continue
                if any(a.startswith("call:") and a[5:] not in base_names for a in cset):
                    continue  # computed by a workspace function the confirmed tree did not call here (extracted helper): its body is not compared
                hv = set(cset)
                for x in closures + helpers:
                    hv |= set(cs.get(x)["universe"]) | set(cs.get(x).get("ret") or [])
                if any(ba <= hv for ba in base_alts):
                    continue
                bad += 1
                ctx.record("baseline-ret", "R9", k, "%s: every way the result is computed is a confirmed one" % short(k, 2), "violation", [where],
                           ["on the confirmed tree the result of %s was computed as one of %s; now one return path computes it from %s only (a new, different measure on some path)" % (k, b["ret_alts"][:3], sorted(cset))],
                           key_detail="ret-alt")
    ctx.stats["baseline_functions"] = len(base)
    for kk, v in n.items():
        ctx.stats["baseline_" + kk] = v
    if not bad:
        ctx.record("baseline", "R9", None, "confirmed-instance baseline: %d functions, %d must-pass, %d check-before-change, %d argument-origin, %d branch-condition, %d no-new-skip instances hold" % (
            len(base), n["must"], n["order"], n["args"], n["guards"], n["silent"]), "hold", sorted(base)[:6])
    return not bad


def _is_ws_short(F, name):
    cur, base = ws_short_names(F)
    return name in cur or name in base


def _core(F, sig):
    """The stable, non-representational part of a condition: parameter paths, fields, workspace calls."""
    out = set()
    for a in list(sig[1]) + list(sig[2]):
        if a.startswith("val:") or a.startswith("op:") or a.startswith("head:"):
            continue
        out.add(a)
    return _live_atoms(F, out)


def _const_value(key):
    m = re.search(r"(?:=|^arm:|^)(-?\d+)$", key)
    return m.group(1) if m else key


def _direct_helpers(F, k):
    out = []
    for bi, t in F.calls(k):
        for n in callee_names(t):
            if n in F.fns and n != k and WS.match(n) and n not in out:
                out.append(n)
    return out


def _guard_in_helper(ctx, k, g, closures=()):
    """A confirmed comparison that moved into a directly called workspace helper (matched with the helper's parameters replaced by the
    caller's argument expressions)."""
    F = ctx.F
    for x in [k] + list(closures):
        f = F.fns[x]
        exf = plain_for(F, x)
        for cbi, t in F.calls(x):
            for gname in callee_names(t):
                if gname not in F.fns or gname == x or F.fns[gname]["kind"] == "Closure":
                    continue
                gf = F.fns[gname]
                args = [exf.operand(a) for a in t["args"]]
                for bi, e, arms, els in switch_conditions(gf):
                    if _is_try_switch(gf, bi):
                        continue
                    sig = cond_signature(F, subst(e, args))
                    if not sig or sig[0] != g[0]:
                        continue
                    if set(g[1]) <= set(sig[1]) and set(g[2]) <= set(sig[2]):
                        return True
                    if g[0] == "Eq" and set(g[1]) <= set(sig[2]) and set(g[2]) <= set(sig[1]):
                        return True
    return False


def _count_in_helpers(ctx, k, g, closures=()):
    """How many comparisons of directly called workspace helpers match the signature once the helper's parameters are replaced by the
    caller's argument expressions (a function split: `verify_impl` -> `verify_impl` + `follow_cycle`)."""
    F = ctx.F
    n = 0
    seen = set()
    for x in [k] + list(closures):
        exf = plain_for(F, x)
        for cbi, t in F.calls(x):
            for gname in callee_names(t):
                if gname not in F.fns or gname == x or F.fns[gname]["kind"] == "Closure" or (x, cbi, gname) in seen:
                    continue
                seen.add((x, cbi, gname))
                gf = F.fns[gname]
                args = [exf.operand(a) for a in t["args"]]
                for bi, e, arms, els in switch_conditions(gf):
                    if _is_try_switch(gf, bi):
                        continue
                    sig = cond_signature(F, subst(e, args))
                    if not sig or sig[0] != g[0]:
                        continue
                    if (set(g[1]) <= set(sig[1]) and set(g[2]) <= set(sig[2])) or (g[0] == "Eq" and set(g[1]) <= set(sig[2]) and set(g[2]) <= set(sig[1])):
                        n += 1
    return n


def _matches_key(fn, t, key):
    return call_key(fn, t, Exprs(fn)) == key


Ctx.r9 = check
