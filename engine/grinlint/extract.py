"""Fact extraction orchestrator: runs the mirfacts rustc driver over /repo's current working tree.

Nothing from /repo is executed: `cargo +nightly check` type-checks and builds MIR only, and the
driver dumps facts in `after_analysis`. Facts are cached under /verif/.cache/facts/<tree-hash>/,
where the hash covers every source file cargo would look at.
"""
import fcntl
import hashlib
import os
import shutil
import subprocess
import sys
import time
import uuid

VERIF = os.path.dirname(os.path.dirname(os.path.dirname(os.path.abspath(__file__))))
REPO = os.environ.get("VERIF_REPO", "/repo")
CACHE = os.path.join(VERIF, ".cache")
DRIVER = os.path.join(VERIF, "engine", "mirfacts", "target", "release", "mirfacts")
CRATES = [
    "grin", "grin_api", "grin_chain", "grin_config", "grin_core", "grin_keychain",
    "grin_p2p", "grin_pool", "grin_servers", "grin_store", "grin_util",
]
KEEP = int(os.environ.get("VERIF_FACTS_KEEP", "24"))  # fact sets kept in the cache


def tree_hash(repo=REPO):
    h = hashlib.sha256()
    files = []
    for root, dirs, names in os.walk(repo):
        dirs[:] = sorted(d for d in dirs if d not in ("target", ".git", "doc", "node_modules"))
        for n in sorted(names):
            if n.endswith(".rs") or n in ("Cargo.toml", "Cargo.lock", "build.rs", "rust-toolchain", "rust-toolchain.toml") \
                    or (os.path.basename(root) == ".cargo" and n.startswith("config")):
                files.append(os.path.join(root, n))
    for f in files:
        h.update(os.path.relpath(f, repo).encode())
        h.update(b"\0")
        with open(f, "rb") as fh:
            h.update(fh.read())
        h.update(b"\0")
    return h.hexdigest()[:24]


def sysroot():
    return subprocess.check_output(["rustc", "+nightly", "--print", "sysroot"], text=True).strip()


def build_driver():
    if os.path.exists(DRIVER):
        src = os.path.join(VERIF, "engine", "mirfacts", "src", "main.rs")
        if os.path.getmtime(src) <= os.path.getmtime(DRIVER):
            return
    env = dict(os.environ, CARGO_NET_OFFLINE="true")
    subprocess.check_call(["cargo", "+nightly", "build", "--release", "--offline"], cwd=os.path.join(VERIF, "engine", "mirfacts"), env=env)


def complete(d, nonce=None):
    for c in CRATES:
        p = os.path.join(d, c + ".jsonl")
        if not os.path.exists(p):
            return False
        if nonce is not None:
            with open(p) as fh:
                if nonce not in fh.readline():
                    return False
    return os.path.exists(os.path.join(d, "OK"))


def extract(flavour="debug", repo=REPO, verbose=True):
    """Returns (facts_dir, tree_hash, info). Raises BuildError when /repo does not type-check."""
    os.makedirs(CACHE, exist_ok=True)
    th = tree_hash(repo)
    drv = hashlib.sha256(open(os.path.join(VERIF, "engine", "mirfacts", "src", "main.rs"), "rb").read()).hexdigest()[:8]
    tag = "%s-%s" % (th, drv) if flavour == "debug" else "%s-%s-%s" % (th, drv, flavour)
    out = os.path.join(CACHE, "facts", tag)
    slot = os.environ.get("VERIF_TARGET_SLOT", "")  # calibration runs (tools/evalset.py) extract several variants in parallel, one target dir each
    with open(os.path.join(CACHE, "lock" + slot), "w") as lock:
        fcntl.flock(lock, fcntl.LOCK_EX)
        if complete(out):
            os.utime(out)
            return out, th, {"cached": True}
        build_driver()
        t0 = time.time()
        tmp = out + ".tmp"
        shutil.rmtree(tmp, ignore_errors=True)
        shutil.rmtree(out, ignore_errors=True)
        os.makedirs(tmp)
        target = os.path.join(CACHE, "target-" + flavour + slot)
        if slot and not os.path.isdir(target) and os.path.isdir(os.path.join(CACHE, "target-" + flavour)):
            subprocess.call(["cp", "-a", os.path.join(CACHE, "target-" + flavour), target])
        # cargo's freshness cache would skip the wrapper for unchanged members: force them
        fp = os.path.join(target, "debug", ".fingerprint")
        if os.path.isdir(fp):
            for n in os.listdir(fp):
                if n.startswith("grin-") or n.startswith("grin_"):
                    shutil.rmtree(os.path.join(fp, n), ignore_errors=True)
        nonce = uuid.uuid4().hex
        rustflags = "-Zmir-opt-level=0 -Zalways-encode-mir -Awarnings"
        if flavour == "release":
            rustflags += " -C overflow-checks=off -C debug-assertions=off"
        env = dict(os.environ)
        env.update({
            "CARGO_NET_OFFLINE": "true",
            "LD_LIBRARY_PATH": sysroot() + "/lib",
            "RUSTFLAGS": rustflags,
            "RUSTC_WORKSPACE_WRAPPER": DRIVER,
            "CARGO_TARGET_DIR": target,
            "MIRFACTS_OUT": tmp,
            "MIRFACTS_NONCE": nonce,
        })
        env.pop("RUSTC_WRAPPER", None)
        p = subprocess.run(["cargo", "+nightly", "check", "--offline", "--workspace", "-j", "16"],
                           cwd=repo, env=env, stdout=subprocess.PIPE, stderr=subprocess.STDOUT, text=True)
        if p.returncode != 0:
            shutil.rmtree(tmp, ignore_errors=True)
            raise BuildError(p.stdout[-6000:])
        open(os.path.join(tmp, "OK"), "w").write(nonce)
        if not complete(tmp, nonce):
            missing = [c for c in CRATES if not os.path.exists(os.path.join(tmp, c + ".jsonl"))]
            shutil.rmtree(tmp, ignore_errors=True)
            raise BuildError("fact files missing or stale after extraction: %s\n%s" % (missing, p.stdout[-3000:]))
        os.rename(tmp, out)
        # prune old fact sets
        fdir = os.path.join(CACHE, "facts")
        pinned = set()
        try:
            import json
            pinned = {os.path.basename(v) for v in json.load(open(os.path.join(CACHE, "evalmap.json"))).values()}  # calibration sets (tools/evalset.py)
        except (OSError, ValueError):
            pass
        sets = sorted((os.path.getmtime(os.path.join(fdir, n)), n) for n in os.listdir(fdir) if not n.endswith(".tmp") and n not in pinned)
        for _, n in sets[:-KEEP]:
            shutil.rmtree(os.path.join(fdir, n), ignore_errors=True)
        if verbose:
            sys.stderr.write("mirfacts: extracted %s (%s) in %.1fs\n" % (tag, flavour, time.time() - t0))
        return out, th, {"cached": False, "extract_s": round(time.time() - t0, 1)}


class BuildError(Exception):
    pass


if __name__ == "__main__":
    fl = sys.argv[1] if len(sys.argv) > 1 else "debug"
    try:
        d, th, info = extract(fl)
    except BuildError as e:
        print("INCONCLUSIVE build\n" + str(e))
        sys.exit(2)
    print(d, th, info)
