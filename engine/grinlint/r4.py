"""R4 no-reach over the instantiated call graph (walk of concrete Instances done by mirfacts)."""
import collections
import re

from cfg import *
from facts import *
from rules import Ctx, pat, LOGM

PANIC_CALL = re.compile(
    # names are normalised (generic `::<..>` segments stripped): `core::slice::<impl [T]>::split_at` is `core::slice::split_at`
    r"core::(option::Option|result::Result)::(unwrap|expect|unwrap_err|expect_err)$|core::panicking::|std::rt::begin_panic|std::panicking::|"
    r"core::ops::index::Index(Mut)?<.*>>::index(_mut)?$|core::ops::index::Index(Mut)?::index(_mut)?$|core::slice::index::(?:<impl .*>::)?index(_mut)?$|core::array::(?:<impl .*>::)?index(_mut)?$|"
    r"core::slice::(?:<impl \[T\]>::)?(copy_from_slice|clone_from_slice|split_at|split_at_mut|swap|copy_within|chunks|chunks_exact|chunks_mut|windows|rotate_left|rotate_right|select_nth_unstable)$|"
    r"bytes::buf::buf_impl::Buf::(get_\w+|advance|copy_to_slice|copy_to_bytes)$|bytes::buf::buf_impl::Buf>::(advance|copy_to_bytes|get_\w+|copy_to_slice)$|"
    r"bytes::bytes_mut::BytesMut::(split_to|split_off|set_len)$|bytes::bytes::Bytes::(split_to|split_off|slice)$|"
    r"bit_vec::BitVec::(set|get_unchecked)$|alloc::vec::Vec::(remove|swap_remove|insert|drain|split_off)$|"
    r"core::cell::RefCell::(borrow|borrow_mut)$|alloc::string::String::(remove|insert|split_off|drain)$|"
    r"core::str::(?:<impl str>::)?split_at$|core::option::Option::unwrap_unchecked|core::num::(?:<impl \w+>::)?(pow|abs|div_euclid|rem_euclid|next_power_of_two|ilog2|ilog10|ilog)$|"
    r"core::time::Duration::(from_secs_f64|from_secs_f32)$|std::time::Instant::(duration_since)$|core::ops::arith::(Add|Sub)<.*>>::(add|sub)$|"
    r"chrono::.*::(and_hms|ymd|from_utc|from_timestamp_opt)$")
ALLOC_CALL = re.compile(
    r"alloc::vec::Vec::with_capacity$|alloc::vec::from_elem$|bytes::bytes_mut::BytesMut::(reserve|with_capacity|resize)$|bit_vec::BitVec::(from_elem|with_capacity|grow)$|"
    r"alloc::string::String::with_capacity$|alloc::vec::Vec::(reserve|reserve_exact|resize)$|std::collections::hash::map::HashMap::with_capacity$|alloc::collections::vec_deque::VecDeque::with_capacity$")
ENTROPY_CALL = re.compile(
    r"^rand::|^rand_core::|thread_rng|OsRng|secp256k1zkp::key::SecretKey::new$|std::time::SystemTime::now$|chrono::.*::now$|std::time::Instant::now$|getrandom")
ASSERT_KINDS = ("BoundsCheck", "DivisionByZero", "RemainderByZero")


def walk(F, crate, roots_rx, stop_rx=None):
    inst = F.inst[crate]
    roots = [i for i, r in inst.items() if roots_rx.search(norm(r["key"]))]
    seen = {}
    q = collections.deque((r, None) for r in roots)
    while q:
        i, par = q.popleft()
        if i in seen:
            continue
        seen[i] = par
        r = inst.get(i)
        if not r:
            continue
        for e in r["edges"]:
            if e[2] != "?" and e[2] in inst and e[2] not in seen:
                if stop_rx and stop_rx.search(norm(e[1])):
                    continue
                q.append((e[2], i))
    return inst, roots, seen


def chain_of(inst, seen, i, n=6):
    out = []
    while i is not None and len(out) < n:
        out.append(short(inst[i]["key"], 2)[:90])
        i = seen[i]
    return " <- ".join(out)


def r4_fn(ctx, rid, crate, roots, forbidden_fn, allow=(), floor_roots=1, control=None, desc=None):
    """No *function* whose canonical name matches `forbidden_fn` is reached from the roots (through workspace and upstream generic code).
    `control`: a pattern that must be reached on every run (positive control of the matcher and of the walk through upstream generics)."""
    F = ctx.F
    inst, rts, seen = walk(F, crate, pat(roots))
    rx = pat(forbidden_fn)
    d = desc or "no function matching %s is reachable from %s" % (forbidden_fn, roots)
    if len(rts) < floor_roots:
        return ctx.record(rid, "R4", None, d, "anchor-lost", [], ["%d roots (floor %d)" % (len(rts), floor_roots)], key_detail="anchor-lost")
    names = {}
    for i in seen:
        r = inst.get(i)
        if r and not r.get("ext"):
            names.setdefault(norm(r["key"]), i)
    if control is not None:
        crx = pat(control)
        if not any(crx.search(k) for k in names):
            return ctx.record(rid, "R4", None, d, "anchor-lost", [], ["positive control %s is not reached: the walk through upstream generic code is broken" % control], key_detail="control-lost")
    bad = sorted(k for k in names if rx.search(k) and k not in allow)
    ctx.stats["instances_reached"] += len(seen)
    if bad:
        for k in bad:
            fn = F.fns.get(k)
            ctx.record(rid, "R4", k if fn else None, d, "violation", [fn_loc(fn)] if fn else [], ["%s is reachable from an untrusted entry; call chain: %s" % (k, chain_of(inst, seen, names[k], 8))],
                       key_detail="reach:" + short(k, 2))
        return False
    ctx.record(rid, "R4", None, d + " [%d roots, %d instances reached, %d workspace functions]" % (len(rts), len(seen), len(names)), "hold", [])
    return True


Ctx.r4_fn = r4_fn


def sites(F, crate, roots, forbid, stop=None, asserts=ASSERT_KINDS):
    """Forbidden constructs reachable from the roots: {site_key: info}. site_key = fn|construct|ordinal"""
    inst, rts, seen = walk(F, crate, pat(roots), pat(stop) if stop else None)
    found = {}
    per_fn = {}
    for i in seen:
        r = inst.get(i)
        if not r:
            continue
        if r.get("ext"):
            # an upstream generic walked only because it can call back into the workspace: its own constructs are represented by the
            # forbidden-call name of the workspace call that enters it (`Vec::with_capacity`, `Option::unwrap`, slice indexing ...)
            continue
        k = norm(r["key"])
        if k in per_fn:
            continue
        per_fn[k] = i
        # constructs of a helper that did not exist on the reviewed tree count for the function it was extracted from
        owner, j = k, i
        gone = getattr(F, "absorbed_fns", {})
        while owner in gone and seen.get(j) is not None:
            j = seen[j]
            owner = norm(inst[j]["key"])
        ordn = collections.Counter()
        items = []
        for e in sorted(r["edges"], key=lambda e: e[0]):
            sp = e[5]
            if set(sp.get("macros", [])) & LOGM:
                continue
            name = norm(e[1])
            kind = None
            for kd, rx in forbid.items():
                if rx.search(name) or rx.search(strip_impl(name)):
                    kind = kd
                    break
            if kind:
                items.append((e[0], kind, short(name, 2), sp))
        for a in r["asserts"]:
            if a[1] in asserts and not (set(a[2].get("macros", [])) & LOGM):
                items.append((a[0], "assert", a[1], a[2]))
        seen_bb = set()
        for bb, kind, what, sp in sorted(items, key=lambda x: (x[0], x[2])):
            if (bb, what) in seen_bb:
                continue
            seen_bb.add((bb, what))
            ordn[what] += 1
            key = "%s|%s|%d" % (k, what, ordn[what])
            f = sp.get("file", "?")
            found[key] = {"fn": k, "owner": owner, "bb": bb, "kind": kind, "what": what, "loc": "%s:%s" % (f, sp.get("lo")), "macros": sp.get("macros", []),
                          "via": chain_of(inst, seen, i)}
    return found, len(rts), len(seen), sorted({norm(inst[r]["key"]) for r in rts})


def r4(ctx, rid, crate, roots, forbid, allow, stop=None, floor_roots=1, floor_reach=1, desc=None, auto=None, asserts=ASSERT_KINDS):
    """allow: {"fn|construct": (max sites, reason)}: one named function + one construct kind + a frozen count.
    auto(ctx, site_info) -> reason string or None (automatic, site-local discharge)."""
    F = ctx.F
    d = desc or "no %s reachable from %s (%s)" % ("/".join(forbid), roots, crate)
    found, nroots, nreach, rootnames = sites(F, crate, roots, forbid, stop, asserts)
    ctx.stats["instances_reached"] += nreach
    ctx.stats["roots"] += nroots
    ok = True
    if nroots < floor_roots or nreach < floor_reach:
        ok = False
        ctx.record(rid, "R4", None, d, "anchor-lost", rootnames[:6], ["%d roots (floor %d), %d instances reached (floor %d)" % (nroots, floor_roots, nreach, floor_reach)],
                   key_detail="anchor-lost")
    nauto = nallow = 0
    autos = collections.Counter()
    groups = collections.defaultdict(list)
    for key, s in sorted(found.items()):
        why = auto(ctx, s) if auto else None
        if why:
            nauto += 1
            autos[why.split(":")[0]] += 1
            continue
        groups["%s|%s" % (s.get("owner") or s["fn"], s["what"])].append(s)
    for g, lst in sorted(groups.items()):
        al = allow.get(g)
        if al is not None and len(lst) <= al[0]:
            nallow += len(lst)
            continue
        ok = False
        s0 = lst[0]
        extra = "" if al is None else " (%d sites, only %d are justified: %s)" % (len(lst), al[0], al[1])
        ctx.record(rid, "R4", s0["fn"], d, "violation", sorted({x["loc"] for x in lst}),
                   ["%s `%s` reachable from an untrusted entry and not justified%s; call chain: %s" % (s0["kind"], s0["what"], extra, s0["via"])],
                   key_detail="%s x%d" % (s0["what"], len(lst)))
    ctx.stats["r4_sites"] += len(found)
    ctx.stats["r4_auto_discharged"] += nauto
    ctx.stats["r4_allow_listed"] += nallow
    if ok:
        ctx.record(rid, "R4", None, d + " [%d roots, %d instances, %d sites: %d discharged automatically %s, %d justified by hand]" % (
            nroots, nreach, len(found), nauto, dict(autos), nallow), "hold", rootnames[:6])
    stale = sorted(set(allow) - set(groups))
    if stale:
        ctx.notes.append("%s: %d allow-list entries not matched (unreachable now): %s" % (rid, len(stale), stale[:10]))
    return ok


Ctx.r4 = r4


# ---------------------------------------------------------------------- automatic discharges
def _const_of(fn, op, depth=0):
    """Integer value of an operand if it is a compile-time constant (through copies, casts and arithmetic on constants), else None."""
    if op is None or depth > 8:
        return None
    if op.get("k") == "const":
        v = op["v"].get("v")
        try:
            return int(v) if v is not None else None
        except ValueError:
            return None
    if op.get("k") not in ("copy", "move"):
        return None
    pl = op["pl"]
    proj = [p for p in pl["p"] if p != "*"]
    l = pl["l"]
    if l <= fn["argc"]:
        return None
    ds = defs_of(fn).get(l, [])
    if len(ds) != 1 or ds[0][0] != "st":
        return None
    rv = ds[0][2]
    if proj:
        # `.0` of a checked arithmetic result
        if len(proj) == 1 and isinstance(proj[0], dict) and proj[0].get("f") == "0" and rv["r"] == "bin" and rv["op"].endswith("WithOverflow"):
            return _fold(rv["op"][:-12], _const_of(fn, rv["a"], depth + 1), _const_of(fn, rv["b"], depth + 1))
        return None
    if rv["r"] in ("use", "cast"):
        return _const_of(fn, rv["a"], depth + 1)
    if rv["r"] == "bin":
        return _fold(rv["op"], _const_of(fn, rv["a"], depth + 1), _const_of(fn, rv["b"], depth + 1))
    return None


def _fold(op, a, b):
    if a is None or b is None:
        return None
    try:
        if op == "Add":
            return a + b
        if op == "Sub":
            return a - b
        if op == "Mul":
            return a * b
        if op == "Div":
            return a // b if b else None
        if op == "Rem":
            return a % b if b else None
        if op == "Shl":
            return a << b if 0 <= b < 128 else None
        if op == "Shr":
            return a >> b if 0 <= b < 128 else None
    except Exception:
        return None
    return None


def auto_discharge(ctx, s):
    """Site-local proofs that a construct cannot fail; returns 'class: reason' or None."""
    F = ctx.F
    fn = F.fns.get(s["fn"]) or getattr(F, "absorbed_fns", {}).get(s["fn"])
    if fn is None:
        return None
    blk = fn["blocks"][s["bb"]] if s["bb"] < len(fn["blocks"]) else None
    if blk is None:
        return None
    t = blk["term"]
    what = s["what"]
    if s["kind"] == "assert" and t["k"] == "assert":
        cond = t["cond"]
        l = local_of(cond)
        ds = defs_of(fn).get(l, []) if l is not None else []
        if what in ("DivisionByZero", "RemainderByZero"):
            # cond = Eq(divisor, 0), expected false
            if len(ds) == 1 and ds[0][0] == "st" and ds[0][2]["r"] == "bin" and ds[0][2]["op"] == "Eq":
                a, b = _const_of(fn, ds[0][2]["a"]), _const_of(fn, ds[0][2]["b"])
                if (a is not None and a != 0 and b == 0) or (b is not None and b != 0 and a == 0):
                    return "A1: divisor is the non-zero constant %s" % (a if a else b)
                # divisor = max(c, x) with a non-zero constant c
                for side, zero in ((ds[0][2]["a"], b), (ds[0][2]["b"], a)):
                    if zero == 0:
                        e = Exprs(fn).operand(side)
                        if e.kind == "call" and e.a in ("cmp::max", "Ord::max"):
                            for kid in e.kids:
                                if kid.kind in ("const", "item"):
                                    m = re.search(r"(\d+)$", str(kid.a))
                                    if m and int(m.group(1)) != 0:
                                        return "A1: divisor is max(%s, _), non-zero" % kid.a
        if what == "BoundsCheck":
            # cond = Lt(index, len), expected true
            if len(ds) == 1 and ds[0][0] == "st" and ds[0][2]["r"] == "bin" and ds[0][2]["op"] == "Lt":
                i, n = _const_of(fn, ds[0][2]["a"]), _const_of(fn, ds[0][2]["b"])
                if i is not None and n is not None and i < n:
                    return "A3: constant index %d into an array of constant length %d" % (i, n)
                if i is not None:
                    # element of a `windows(k)` / `chunks_exact(k)` item with constant k > i
                    ex = Exprs(fn)
                    b_op = ds[0][2]["b"]
                    txt = render(ex.operand(b_op))
                    m = re.search(r"slice::(windows|chunks_exact)\((.*), (\d+)\)", txt)
                    if m and int(m.group(3)) > i:
                        return "A4: constant index %d into an element of %s(%s)" % (i, m.group(1), m.group(3))
                    # the same element handed to a closure by an iterator adaptor (`v.windows(2).any(|pair| pair[0] == pair[1])`)
                    par = fn.get("parent")
                    if fn.get("kind") == "Closure" and par in F.fns and re.match(r"^PtrMetadata\(arg1\)$|^Len\(arg1\)$|arg1", txt) and "arg2" not in txt:
                        pfn = F.fns[par]
                        pex = Exprs(pfn)
                        for pb in pfn["blocks"]:
                            pt = pb["term"]
                            if pt["k"] == "call" and not pb["cleanup"] and s["fn"] in [norm(c_) for c_ in pt.get("callables", [])] + list(pt.get("ncallables", [])):
                                if any(re.search(r"::(any|all|for_each|map|filter|filter_map|find|find_map|position|try_for_each|take_while|skip_while|fold|flat_map)$", n_) for n_ in callee_names(pt)) and pt["args"]:
                                    rtxt = render(pex.operand(pt["args"][0]))
                                    m2 = re.search(r"slice::(windows|chunks_exact)\((.*), (\d+)\)", rtxt)
                                    if m2 and int(m2.group(3)) > i:
                                        return "A4: constant index %d into an element of %s(%s) handed to the closure by an iterator adaptor" % (i, m2.group(1), m2.group(3))
        return None
    if t["k"] != "call":
        return None
    names = callee_names(t)
    ex = Exprs(fn)
    if any(re.search(r"Index(Mut)?<.*>>::index(_mut)?$|slice::index::(<impl .*>::)?index(_mut)?$|array::(<impl .*>::)?index(_mut)?$", n) for n in names) and len(t["args"]) >= 2:
        a1 = t["args"][1]
        ty = a1["v"].get("ty", "") if a1.get("k") == "const" else (fn["locals"][a1["pl"]["l"]]["s"] if not a1["pl"]["p"] else "")
        if ty.endswith("RangeFull"):
            return "A2: full-range slice `[..]` cannot fail"
    if any(re.search(r"slice::(<impl \[T\]>::)?(windows|chunks_exact|chunks)$", n) for n in names) and len(t["args"]) >= 2:
        c = _const_of(fn, t["args"][1])
        if c:
            return "A4: window/chunk size is the non-zero constant %d" % c
    if s["kind"] == "alloc" and t["args"]:
        # capacity / length argument
        idx = 1 if any(re.search(r"alloc::vec::from_elem$|BytesMut::(reserve|resize)$|Vec::(reserve|resize|reserve_exact)$|BitVec::grow$", n) for n in names) else 0
        if idx < len(t["args"]):
            e = ex.operand(t["args"][idx])
            txt = render(e)
            if e.kind in ("const", "item"):
                return "A5: allocation size is the constant %s" % txt
            if e.kind == "call" and e.a in ("cmp::min", "Ord::min") and any(k.kind in ("const", "item") for k in e.kids):
                return "A5: allocation size is min(_, %s)" % ", ".join(render(k) for k in e.kids if k.kind in ("const", "item"))
    return None
