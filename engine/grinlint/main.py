#!/usr/bin/env python3
"""grinlint driver: ./check <property> [--tier quick|thorough] [--replay <file>]"""
import importlib.util
import json
import os
import sys
import time

HERE = os.path.dirname(os.path.abspath(__file__))
sys.path.insert(0, HERE)
import extract
from facts import Facts
from rules import Ctx

VERIF = extract.VERIF


def load_rules(prop):
    p = os.path.join(VERIF, "rules", prop + ".py")
    if not os.path.exists(p):
        sys.stderr.write("no rule table for %s\n" % prop)
        sys.exit(3)
    spec = importlib.util.spec_from_file_location("rules_" + prop, p)
    m = importlib.util.module_from_spec(spec)
    spec.loader.exec_module(m)
    return m


def known_findings():
    p = os.path.join(VERIF, "known_findings.json")
    if not os.path.exists(p):
        return {"known": [], "fixed": []}
    return json.load(open(p))


def main():
    args = sys.argv[1:]
    if not args:
        print(__doc__)
        sys.exit(3)
    prop = args[0]
    tier = os.environ.get("VERIF_TIER", "quick")
    replay = None
    i = 1
    while i < len(args):
        if args[i] == "--tier":
            tier = args[i + 1]
            i += 2
        elif args[i] == "--list":
            os.environ["GRINLINT_LIST"] = "1"
            i += 1
        elif args[i] == "--replay":
            replay = args[i + 1]
            i += 2
        else:
            i += 1
    if replay:
        r = json.load(open(replay))
        print(json.dumps(r, indent=1))
        print("re-running the check against the current tree:")
    seed = int(os.environ.get("VERIF_SEED", "0") or 0)
    t0 = time.time()
    try:
        if os.environ.get("VERIF_FACTS_DIR"):
            # developer aid (tools/evalset.py): analyse an already extracted fact set of a scratch variant
            fdir, th, info = os.environ["VERIF_FACTS_DIR"], "override", {"cached": True, "override": True}
        else:
            fdir, th, info = extract.extract("debug")
    except extract.BuildError as e:
        print("INCONCLUSIVE build: /repo does not type-check under cargo +nightly check\n" + str(e)[-3000:])
        sys.exit(2)
    F = Facts(fdir)
    kf = os.path.join(VERIF, "baseline", "functions.json")
    absorbed = []
    if os.path.exists(kf):
        import facts as _facts
        absorbed = _facts.absorb_new_functions(F, json.load(open(kf)))
    import rules as _rules
    _rules.load_vanished(F, os.path.join(VERIF, "baseline"))
    mod = load_rules(prop)
    ctx = Ctx(F, prop, tier)
    ctx.facts_dir = fdir
    ctx.tree_hash = th
    mod.run(ctx)
    thorough = {}
    if tier == "thorough":
        if hasattr(mod, "run_thorough"):
            mod.run_thorough(ctx)
        if getattr(mod, "RELEASE_RULES", None):
            # second extraction under the release flags the property fixes (overflow checks off, debug assertions off)
            try:
                rdir, _th, rinfo = extract.extract("release")
                RF = Facts(rdir)
                rctx = Ctx(RF, prop, tier)
                mod.RELEASE_RULES(rctx)
                for o in rctx.obls:
                    o["id"] = "release:" + o["id"]
                    o["key"] = o["key"].replace("|", "|release:", 1) if False else o["key"]
                ctx.obls.extend(rctx.obls)
                thorough["release_extraction"] = rinfo
                thorough["release_stats"] = dict(rctx.stats)
            except extract.BuildError as e:
                ctx.record("release-extraction", "R4", None, "release-flag extraction", "anchor-lost", [], [str(e)[-400:]], key_detail="release-build")
        if not os.environ.get("VERIF_NO_MUTANTS") and os.environ.get("VERIF_REPO", "/repo") == "/repo":
            import subprocess
            mp = subprocess.run([sys.executable, os.path.join(VERIF, "mutants", "run.py"), "--prop", prop], stdout=subprocess.PIPE, stderr=subprocess.STDOUT, text=True)
            last = [l for l in mp.stdout.splitlines() if l.startswith("{")]
            if last:
                thorough["mutants"] = json.loads(last[-1])
                for sname in thorough["mutants"].get("survived", []):
                    sys.stderr.write("checker self-test: mutant %s SURVIVED (measures the checker, not the repository)\n" % sname)
    kf = known_findings()
    known = {k["key"]: k for k in kf.get("known", []) if k.get("property") == prop}
    viols, knowns = [], []
    for o in ctx.obls:
        if o["verdict"] == "hold":
            continue
        if o["key"] in known:
            knowns.append(o)
        else:
            viols.append(o)
    evdir = os.environ.get("VERIF_EVIDENCE", os.path.join(VERIF, "evidence"))
    os.makedirs(os.path.join(evdir, "replay"), exist_ok=True)
    for o in knowns:
        print("KNOWN-FINDING: property=%s %s" % (prop, known[o["key"]].get("what", o["key"])))
    for n, o in enumerate(viols):
        rp = os.path.join(evdir, "replay", "%s-%d.json" % (prop, n))
        json.dump(o, open(rp, "w"), indent=1)
        print("---- %s %s [%s] %s" % (o["verdict"].upper(), o["id"], o["kind"], o["desc"]))
        print("     key: " + o["key"])
        for s in o["sites"]:
            print("     site: " + s)
        for w in o["witness"]:
            print("     " + w)
        print("VIOLATION property=%s replay=%s" % (prop, rp))
    if os.environ.get("GRINLINT_LIST"):
        for o in ctx.obls:
            print("%-10s %-34s %s\n             %s" % (o["verdict"], o["id"], o["desc"][:150], " | ".join(o["sites"][:4])[:220]))
    held = [o for o in ctx.obls if o["verdict"] == "hold"]
    samples = []
    seen_kinds = set()
    for o in ctx.obls:
        if len(samples) < 12 and (o["kind"] not in seen_kinds or len(samples) < 8):
            seen_kinds.add(o["kind"])
            samples.append({"rule": o["id"], "kind": o["kind"], "obligation": o["desc"], "verdict": o["verdict"], "sites": o["sites"][:4]})
    ev = {
        "property_id": prop,
        "tier": tier,
        "seed": seed,
        "level": "other",
        "coverage": {
            "explanation": "Static analysis over rustc MIR facts of /repo's current working tree (tree hash %s). "
                           "Decided clause: %s Not decided (outside this technique): %s" % (th, mod.CLAUSE, mod.NOT_DECIDED),
            "obligations": len(ctx.obls),
            "discharged": len(held),
            "evaluations": len(ctx.obls),
            "distinct_nontrivial": len({o["key"] for o in ctx.obls if o["sites"]}),
            "rule": "obligations are the rows of the hand-confirmed rule table rules/%s.py (R1 must-pass-through graph cuts, R2 guard/argument-origin "
                    "matches, R3 closed caller/writer sets, R4 no-reach, R5 lock discipline, R6 result discipline, R7 table agreement); an obligation "
                    "is non-trivial when it bound at least one concrete call site, guard or function in the current tree" % prop,
            "samples": samples,
            "exhaustive": True,
            "functions_in_facts": len(F.fns),
            "functions_analysed": len(ctx.fn_seen),
            "call_sites": ctx.stats.get("call_sites", 0),
            "guards_matched": ctx.stats.get("guards", 0),
            "paths_cut": ctx.stats.get("paths_cut", 0),
            "stats": dict(ctx.stats),
            "tree_hash": th,
            "facts": info,
            "known_findings": [o["key"] for o in knowns],
            "violation_keys": [o["key"] for o in viols],
            "notes": ctx.notes + (["functions absent from the reviewed tree were inlined into their callers: %s" % absorbed[:12]] if absorbed else []),
            "thorough": thorough,
        },
        "assumptions": getattr(mod, "ASSUMPTIONS", []) + [
            "rustc MIR (mir-opt-level=0) is a faithful control-flow abstraction of the source",
            "closures passed to the txhashset wrappers execute within their call site; external crates behave as documented",
            "necessary structural conditions only: a pass does not prove the behavioural property",
        ],
        "wall_s": round(time.time() - t0, 2),
        "violations": len(viols),
    }
    with open(os.path.join(evdir, prop + ".json"), "w") as fh:
        json.dump(ev, fh, indent=1)
    print("%s tier=%s obligations=%d held=%d known=%d violations=%d functions=%d wall=%.1fs" % (
        prop, tier, len(ctx.obls), len(held), len(knowns), len(viols), len(ctx.fn_seen), time.time() - t0))
    sys.exit(1 if viols else 0)


if __name__ == "__main__":
    main()
