"""R8 type-level witnesses: `wN_*_bad.rs` must fail `cargo check` with exactly the expected error code on the WITNESS line,
its twin `wN_*_good.rs` (identical except for the offending line) must check cleanly. Nothing is executed."""
import glob
import json
import os
import re
import shutil
import subprocess

VERIF = os.path.dirname(os.path.dirname(os.path.dirname(os.path.abspath(__file__))))
WDIR = os.path.join(VERIF, "witness")
EXPECT = {
    "w1_use_after_commit": ("C18", "E0382", "a batch cannot be used after commit(self)"),
    "w2_parent_while_child": ("C18", "E0499", "the parent batch is mutably borrowed while a child batch lives"),
    "w3_batch_not_send": ("C18", "E0277", "a batch is !Send (cannot move an LMDB write transaction to another thread)"),
    "w4_txhashset_mut_via_read": ("C17", "E0596", "the txhashset cannot be mutated through a read guard"),
    "w5_chain_send_sync": ("C17", None, "Chain: Send + Sync"),
    "w6_reward_constant": ("C01", None, "consensus::REWARD == 60 grin (const assertion)"),
}


def _check(example, repo):
    env = dict(os.environ, CARGO_NET_OFFLINE="true", CARGO_TARGET_DIR=os.path.join(VERIF, ".cache", "target-witness"))
    p = subprocess.run(["cargo", "+nightly", "check", "--offline", "--example", example, "--message-format=json"],
                       cwd=WDIR, env=env, stdout=subprocess.PIPE, stderr=subprocess.PIPE, text=True)
    errs = []
    for line in p.stdout.splitlines():
        try:
            m = json.loads(line)
        except ValueError:
            continue
        if m.get("reason") == "compiler-message" and m["message"].get("level") == "error":
            msg = m["message"]
            code = (msg.get("code") or {}).get("code")
            spans = [s for s in msg.get("spans", []) if s.get("is_primary")]
            line_no = spans[0]["line_start"] if spans else None
            fname = spans[0]["file_name"] if spans else ""
            if example in fname or not spans:
                errs.append((code, line_no, msg.get("message", "")[:120]))
    return p.returncode, errs, p.stderr[-1500:]


def run(ctx, prop):
    """Evaluate the witnesses that belong to `prop`; records R8 obligations on ctx."""
    repo = os.environ.get("VERIF_REPO", "/repo")
    if os.environ.get("VERIF_FACTS_DIR"):
        # developer aid (tools/evalset.py analyses pre-extracted fact sets of scratch variants whose sources are gone): the type-level
        # witnesses need the variant's sources, so they are not part of that calibration; every registered check runs them
        ctx.notes.append("witnesses skipped: analysing a pre-extracted fact set (calibration run)")
        return
    # the witness crate path-depends on /repo; for a scratch copy the paths are rewritten on the fly
    cargo = open(os.path.join(WDIR, "Cargo.toml")).read()
    restore = None
    if repo != "/repo":
        restore = cargo
        open(os.path.join(WDIR, "Cargo.toml"), "w").write(cargo.replace('path = "/repo/', 'path = "%s/' % repo))
    try:
        shutil.copy(os.path.join(repo, "Cargo.lock"), os.path.join(WDIR, "Cargo.lock"))
        for name, (p, code, what) in sorted(EXPECT.items()):
            if p != prop:
                continue
            good = name + "_good"
            bad = name + "_bad"
            rc, errs, tail = _check(good, repo)
            d = "type-level witness %s: %s" % (name, what)
            if rc != 0:
                ctx.record("witness-" + name, "R8", None, d, "violation" if errs else "anchor-lost", [os.path.join("witness/examples", good + ".rs")],
                           ["the compiling twin does not type-check: %s %s" % (errs[:2], tail[-300:] if not errs else "")], key_detail="twin")
                continue
            if code is None:
                ctx.record("witness-" + name, "R8", None, d, "hold", ["witness/examples/%s.rs checks" % good])
                continue
            src = open(os.path.join(WDIR, "examples", bad + ".rs")).read().splitlines()
            wline = [i + 1 for i, l in enumerate(src) if "// WITNESS" in l]
            rc, errs, tail = _check(bad, repo)
            codes = {e[0] for e in errs}
            if rc != 0 and code in codes and any(e[0] == code and (not wline or e[1] in (wline[0], wline[0] + 1, wline[0] - 1)) for e in errs):
                ctx.record("witness-" + name, "R8", None, d + " [%s at the marked line; twin compiles]" % code, "hold", ["witness/examples/%s.rs" % bad])
            elif rc == 0:
                ctx.record("witness-" + name, "R8", None, d, "violation", ["witness/examples/%s.rs" % bad],
                           ["the violating client program now type-checks (expected %s)" % code], key_detail="compiles")
            else:
                ctx.record("witness-" + name, "R8", None, d, "violation", ["witness/examples/%s.rs" % bad],
                           ["fails with %s instead of %s: %s" % (sorted(c for c in codes if c), code, errs[:2])], key_detail="other-error")
    finally:
        if restore is not None:
            open(os.path.join(WDIR, "Cargo.toml"), "w").write(restore)
