"""C13 — maturity, lock heights and relative locks hold on every fork."""
CLAUSE = ("the coinbase-maturity, kernel lock-height and NRD relative-height guards exist with the right operator and operand origins; maturity is "
          "evaluated on the fork-local extension pair (header MMR of the extension, stored output features) after the fork rewind and before "
          "UTXO validation/application, also for every re-applied fork block; lock heights are checked by Block::validate and at read time; NRD "
          "rules run for every applied kernel and are rewound with the block; the pool path checks lock height, maturity and kernel variants "
          "against the next block height before admission.")
NOT_DECIDED = "boundary behaviour over real reorganisation histories, the maturity constant's value per chain type."

P = "grin_chain::pipe::"
U = "grin_chain::txhashset::utxo_view::UTXOView::"
X = "grin_chain::txhashset::txhashset::"
B = "grin_core::core::block::Block::"
CH = "grin_chain::chain::Chain::"
TP = "grin_pool::transaction_pool::TransactionPool::"


def run(c):
    import r9
    c.r9("C13")
    CL = P + "process_block@txhashset::txhashset::extending"
    c.r1("maturity-after-fork-rewind", CL, P + "rewind_and_apply_fork", sink=P + "verify_coinbase_maturity", via=2)
    c.r1("maturity-before-utxo", CL, P + "verify_coinbase_maturity", sink=P + "validate_utxo", via=2)
    c.r1("maturity-before-apply", CL, P + "verify_coinbase_maturity", sink=P + "apply_block_to_txhashset", via=2)
    c.loop("fork-maturity-each", P + "rewind_and_apply_fork", P + "verify_coinbase_maturity", over=r"Vec::new|IntoIterator::into_iter")
    c.r1("fork-maturity-before-apply", P + "rewind_and_apply_fork", P + "verify_coinbase_maturity", sink=P + "apply_block_to_txhashset", via=2)
    VM = P + "verify_coinbase_maturity"
    c.r1("pipe-maturity", VM, U + "verify_coinbase_maturity", via=2)
    c.r2_arg("pipe-maturity-view", VM, U + "verify_coinbase_maturity", 0, must=["call:Extension::utxo_view", "arg1.extension", "arg1.header_extension"],
             desc="pipe::verify_coinbase_maturity uses the extension pair's own view (fork-aware)")
    c.r2_arg("pipe-maturity-height", VM, U + "verify_coinbase_maturity", 2, must=["arg0.header.height"])
    c.r2_arg("pipe-maturity-inputs", VM, U + "verify_coinbase_maturity", 1, must=["call:Block::inputs", "arg0"])
    UM = U + "verify_coinbase_maturity"
    c.r2("maturity-too-early", UM, ops={"Lt"}, lhs=["arg2"], rhs=["call:global::coinbase_maturity"], err="ImmatureCoinbase",
         bypass=[(r"^discr\(Iterator::max\(", 0)], desc="coinbase spent before the chain is `maturity` blocks high is immature (bypass: no coinbase spent)")
    c.r2("maturity-cutoff", UM, ops={"Gt"}, lhs=["call:Iterator::max", "call:Iterator::filter_map"],
         rhs=["call:UTXOView::get_header_by_height", "call:num::saturating_sub", "arg2", "call:global::coinbase_maturity", "re:\\.output_mmr_size$"], err="ImmatureCoinbase",
         bypass=[(r"^discr\(Iterator::max\(", 0)], desc="a coinbase position beyond the output MMR size `maturity` blocks ago is immature")
    c.r2("maturity-coinbase-stored-features", UM + "@iterator::Iterator::filter_map", cond=r"^OutputFeatures::is_coinbase\(arg1\.0\.features\)$", fail_on=False, dominate=False, sink="return",
         desc="coinbase-ness is taken from the stored output's features") if False else \
        c.r2_arg("maturity-coinbase-stored-features", UM + "@iterator::Iterator::filter_map", "grin_core::core::transaction::OutputFeatures::is_coinbase", 0, must=["arg1.0.features"],
                 desc="the coinbase filter tests is_coinbase on the looked-up (stored) output's features")
    c.r1("maturity-lookup", UM + "@iterator::Iterator::map", U + "validate_input", sink="return", via=2, desc="spent outputs are looked up through validate_input (stored output, fork-local view)")
    c.r1("cutoff-header-from-extension", U + "get_header_by_height", U + "get_header_hash", via=2,
         desc="the cutoff header is located through the view's header MMR, not a global height index")
    c.r2_arg("cutoff-header-hash-source", U + "get_header_hash", "re:ReadablePMMR::get_data$|ReadablePMMR>::get_data$", 0, must=["arg0.header_pmmr"])
    c.no_reach_cg("cutoff-not-by-global-index", [U + "get_header_by_height", U + "verify_coinbase_maturity"], "re:store::Batch::get_header_by_height$|ChainStore::get_header_by_height$|get_header_hash_by_height$",
                  desc="maturity never consults a height index of the current best chain")
    # --- lock heights
    LH = B + "verify_kernel_lock_heights"
    c.r2("lock-height", LH, ops={"Gt"}, lhs=["re:lock_height$"], rhs=["arg0.header.height"], err="KernelLockHeight", dominate=False)
    c.r1("block-validate-lock-heights", B + "validate", LH, via=2)
    c.r1("block-read-lock-heights", B + "validate_read", LH, via=2)
    NR = B + "verify_nrd_kernels_for_header_version"
    c.r2("nrd-enabled", NR, cond=r"^global::is_nrd_enabled\(\)$", fail_on=False, err="NRDKernelNotEnabled", bypass=[(r"^Iterator::any\(slice::iter\(Block::kernels\(arg0\)\)", "false")])
    c.r2("nrd-version", NR, ops={"Lt"}, lhs=["arg0.header.version"], err="NRDKernelPreHF3", bypass=[(r"^Iterator::any\(slice::iter\(Block::kernels\(arg0\)\)", "false")])
    c.r1("block-validate-nrd", B + "validate", NR, via=2)
    # --- NRD relative height
    AK = X + "apply_kernel_rules"
    c.r2("nrd-relative", AK, ops={"Lt"}, lhs=["call:num::saturating_sub", "arg1.height", "call:ListIndex::peek_pos"], rhs=["re:relative_height$"], err="NRDRelativeHeight",
         sink="re:ListIndex::push_pos$", dominate=False)
    c.r1("nrd-peek-before-push", AK, "re:ListIndex::peek_pos$", sink="re:ListIndex::push_pos$", via=2)
    gates = c.false_edges(AK, r"^global::is_nrd_enabled\(\)$")
    if len(gates) != 1:
        c.lost("nrd-single-gate", "R2", AK, "apply_kernel_rules has a single is_nrd_enabled gate", "%d found" % len(gates))
    c.loop("kernel-rules-each", X + "Extension::apply_kernels", X + "apply_kernel_rules", over=r"arg1")
    c.loop("kernel-apply-each", X + "Extension::apply_kernels", "re:txhashset::apply_kernel_rules$", over=r"arg1", via=2,
           desc="Extension::apply_kernels: every kernel of the block goes through apply_kernel_rules (NRD relative-height rule)")
    c.r1("apply-block-kernels", X + "Extension::apply_block", X + "Extension::apply_kernels", via=2)
    c.r2_arg("apply-kernels-height", X + "Extension::apply_block", X + "Extension::apply_kernels", 2, must=["arg1.header.height"])
    c.r1("nrd-rewind", X + "Extension::rewind_single_block", "re:linked_list::.*::rewind$|RewindableListIndex::rewind$", sink="ok", via=2,
         extra_cuts=c.false_edges(X + "Extension::rewind_single_block", r"^global::is_nrd_enabled\(\)$") +
         [e for e in _non_nrd(c, X + "Extension::rewind_single_block")],
         desc="rewind_single_block rewinds the NRD kernel index for every NRD kernel of the rewound block (when NRD is enabled)") if False else None
    RSB = X + "Extension::rewind_single_block"
    c.r2_arg("nrd-rewind-position", RSB, "re:RewindableListIndex::rewind$|linked_list::.*::rewind$", 3, must=["call:Batch::get_previous_header", "re:\\.kernel_mmr_size$"],
             must_not=["re:\\.output_mmr_size$"], desc="rewind_single_block rewinds the NRD kernel index to the previous header's kernel MMR size")
    c.r2_edge("nrd-rewind-gated", RSB, [(r"^global::is_nrd_enabled\(\)$", "true")], "re:RewindableListIndex::rewind$|linked_list::.*::rewind$")
    c.r2_arg("rewind-mmr-positions-output", RSB, X + "Extension::rewind_mmrs_to_pos", 1, must=["re:\\.output_mmr_size$"], where=r"get_previous_header", floor=1)
    c.r2_arg("rewind-mmr-positions-kernel", RSB, X + "Extension::rewind_mmrs_to_pos", 2, must=["re:\\.kernel_mmr_size$"], where=r"get_previous_header", floor=1)
    # --- pool path
    AP = TP + "add_to_pool"
    for sink in ("add_to_stempool", "add_to_txpool"):
        c.r1("pool-lock-height-" + sink, AP, "grin_pool::types::BlockChain::verify_tx_lock_height", sink=TP + sink, via=2)
        c.r1("pool-maturity-" + sink, AP, "grin_pool::types::BlockChain::verify_coinbase_maturity", sink=TP + sink, via=2)
        c.r1("pool-kernel-variants-" + sink, AP, TP + "verify_kernel_variants", sink=TP + sink, via=2)
    c.r2("chain-tx-lock-height", CH + "verify_tx_lock_height", ops={"Le"}, lhs=["call:Transaction::lock_height"], rhs=["call:Chain::next_block_height"], fail_on=False, err="TxLockHeight")
    c.r1("chain-maturity-next-height", CH + "verify_coinbase_maturity", CH + "next_block_height", via=2)
    c.r1("chain-maturity-view", CH + "verify_coinbase_maturity@txhashset::txhashset::utxo_view", U + "verify_coinbase_maturity", via=2)
    c.r2_arg("chain-maturity-height", CH + "verify_coinbase_maturity@txhashset::txhashset::utxo_view", U + "verify_coinbase_maturity", 2, must=["re:^arg0\\."])
    c.r2_ret("next-block-height", CH + "next_block_height", must=["call:Chain::head_header", "op:AddWithOverflow", "const:1"])


def _non_nrd(c, fn):
    return []
