"""C07 — MMR roots and Merkle proofs follow the definition (narrow clause: hashing dataflow and proof-verification funnel)."""
CLAUSE = ("hashing and verification dataflow of the MMR definition: PMMR::push hashes the leaf with the position it is appended at and every new parent "
          "as (left peak, running hash) with the parent's position, appends exactly the hashes it computed and advances the size past the last parent; "
          "root / bag_the_rhs fold the peaks right to left (reversed iterator) with the MMR size as index; PMMR::validate rejects a parent whose hash "
          "differs from the hash of its two children at its position; MerkleProof::verify_consume returns Ok only through equality of the supplied root "
          "with the hash it reconstructed from the element (at the given position), consumes exactly one path hash per level, recurses on the parent "
          "position given by pmmr::family and orders (sibling, node) by the peak / is_left_sibling tests; PMMRIndexHashable::hash_with_index hashes the "
          "(index, value) pair; the confirmed structure (operators, constants, comparison operands, call order) of the position-arithmetic functions the "
          "property names is unchanged with respect to the reviewed tree.")
NOT_DECIDED = ("that the 64-bit position arithmetic (peaks, family, n_leaves, insertion_to_pmmr_index, bintree_*, round_up_to_leaf_pos) agrees with an explicitly "
               "built tree for every size; equality of roots with the defining construction for every append sequence; that every single-field corruption "
               "of a proof is rejected (hash values). The arithmetic is only held to its reviewed structure, not proven.")
TECHNIQUE = ("static analysis: argument-origin / return-origin dataflow, guard and must-pass-through rules over rustc MIR (custom rustc_private driver), plus a "
             "confirmed-instance structural baseline of the named position-arithmetic functions")

P = "grin_core::core::pmmr::pmmr::"
M = "grin_core::core::merkle_proof::MerkleProof::"
HWI = "grin_core::ser::PMMRIndexHashable::hash_with_index"


def run(c):
    import r9
    c.r9("C07")
    push = P + "PMMR::push"
    # leaf hash over (position, data): the first hash_with_index is applied to the leaf with the current size
    c.r2_arg("push-leaf-hash-element", push, HWI, 0, must=["arg1"], where=r"^arg1, ", floor=1,
             desc="PMMR::push hashes the pushed leaf itself")
    c.r2_arg("push-leaf-hash-position", push, HWI, 1, must=["arg0.size"], must_not=["op:Sub", "op:Mul"], where=r"^arg1, ", floor=1,
             desc="PMMR::push hashes the leaf with the position it is appended at (the current size)")
    # parent hash over (position, left, right)
    c.r2_arg("push-parent-hash-children", push, HWI, 0, must=["re:^call:.*get_peak_from_file$", "call:PMMRIndexHashable::hash_with_index"], where=r"tuple\{", floor=1,
             desc="PMMR::push hashes each new parent from (left sibling peak read from the backend, running hash)")
    c.r2_arg("push-parent-hash-position", push, HWI, 1, must=["arg0.size", "op:AddWithOverflow", "const:1"], where=r"tuple\{", floor=1,
             desc="PMMR::push hashes each new parent with the parent's own position (pos advanced by one per level)")
    c.r2("push-size-is-leaf-position", push, cond=r"^Ne\(pmmr::peak_map_height\(.*\)\.1, 0\)$", fail_on=True, sink="re:backend::Backend::append$",
         desc="PMMR::push refuses a size that is not a leaf position (height of the insertion position must be 0)")
    c.r1("push-appends", push, "re:backend::Backend::append$", via=0, desc="PMMR::push: ok => backend.append(leaf, hashes) succeeded")
    c.r2_arg("push-appends-leaf", push, "re:backend::Backend::append$", 1, must=["arg1"], desc="PMMR::push appends the pushed leaf")
    c.r2_assign("push-advances-size", push, "size", must=["arg0.size", "op:AddWithOverflow", "const:1"])
    # root: peaks bagged right to left with the size
    for fn, src in ((P + "ReadablePMMR::root", r"ReadablePMMR::peaks"), (P + "ReadablePMMR::bag_the_rhs", r"pmmr::peaks")):
        c.r2_arg("bag-index-is-size:" + fn.split("::")[-1], fn, HWI, 1, must=["re:^call:.*unpruned_size$"], floor=1,
                 desc="%s bags the peaks with the MMR size as index" % fn.split("::")[-1])
        c.r2_arg("bag-right-to-left:" + fn.split("::")[-1], fn, "re:iter::traits::iterator::Iterator::next$", 0, must=["call:Iterator::rev"], floor=1,
                 desc="%s folds the peaks right to left (reversed iterator)" % fn.split("::")[-1])
        c.r2_arg("bag-pair-order:" + fn.split("::")[-1], fn, HWI, 0, text=r"^tuple\{Iterator::next\(.*@Some\.0, ", floor=1,
                 desc="%s hashes (peak, accumulated right-hand side) in that order" % fn.split("::")[-1])
    # validate: parent == hash(children) at the parent's position
    v = P + "PMMR::validate"
    c.r2("validate-parent-hash", v, cond=r"^PartialEq::ne\(PMMRIndexHashable::hash_with_index\(tuple\{ReadablePMMR::get_from_file\(.*ReadablePMMR::get_hash\(", fail_on=True,
         dominate=False, desc="PMMR::validate: a parent whose hash differs from hash_with_index((left, right), its position) is rejected")
    # Merkle proof verification
    vc = M + "verify_consume"
    c.r2("proof-root-equality", vc, cond=r"^PartialEq::eq\(arg1, (phi\()?PMMRIndexHashable::hash_with_index\(arg2, ", err="RootMismatch", fail_on=False, dominate=False,
         desc="verify_consume: with the path exhausted the supplied root must equal the reconstructed hash, else RootMismatch")
    c.r1("proof-ok-only-via-equality", vc, M + "verify", via=0, extra_cuts=c.true_edges(vc, r"^PartialEq::eq\(arg1, (phi\()?PMMRIndexHashable::hash_with_index\(arg2, "),
         desc="verify_consume: Ok is returned only through the root-equality test or through the verdict of the recursive step")
    c.r1("proof-consumes-path", vc, "re:alloc::vec::Vec::remove$", sink=M + "verify", via=0, called_only=True,
         desc="verify_consume: every recursive step has consumed one path hash")
    c.r1("proof-empty-path-stops", vc, "re:alloc::vec::Vec::is_empty$", sink="re:alloc::vec::Vec::remove$", via=0, truth=False,
         desc="verify_consume: a path hash is taken only when the path is not empty (no panic on a short proof)")
    c.r2_arg("proof-step-root", vc, M + "verify", 1, must=["arg1"], floor=1, desc="verify_consume recurses with the same root")
    c.r2_arg("proof-step-position", vc, M + "verify", 3, must=["call:pmmr::family", "arg3"], floor=1, desc="verify_consume recurses on the parent position given by pmmr::family")
    c.r2_arg("proof-step-element", vc, M + "verify", 2, must=["call:Vec::remove", "call:PMMRIndexHashable::hash_with_index"], floor=1,
             desc="verify_consume recurses on the pair built from the consumed sibling and the node hash")
    c.r2_arg("proof-node-hash-element", vc, HWI, 0, must=["arg2"], floor=1, desc="the node hash is taken over the supplied element")
    vf = M + "verify"
    c.r2_arg("verify-root", vf, M + "verify_consume", 1, must=["arg1"], desc="MerkleProof::verify passes the root on")
    c.r2_arg("verify-element", vf, M + "verify_consume", 2, must=["arg2"], desc="MerkleProof::verify passes the element on")
    c.r2_arg("verify-position", vf, M + "verify_consume", 3, must=["arg3"], desc="MerkleProof::verify passes the position on")
    c.r2_arg("verify-peaks", vf, M + "verify_consume", 4, must=["call:pmmr::peaks", "arg0.mmr_size"], desc="MerkleProof::verify derives the peak positions from the proof's MMR size")
    c.r1("verify-delegates", vf, M + "verify_consume", via=0, desc="MerkleProof::verify: ok => verify_consume ok")
    # hash_with_index: (index, value) pair
    h = "re:^<T as grin_core::ser::PMMRIndexHashable>::hash_with_index$"
    c.r2_arg("hash-with-index-pair", h, "re:hash::Hashed::hash$", 0, must=["arg0", "arg1"], desc="hash_with_index hashes the (index, value) pair")
    # proof construction
    mp = P + "ReadablePMMR::merkle_proof"
    c.r2("proof-only-for-leaves", mp, cond=r"^pmmr::is_leaf\(arg1\)$", fail_on=False, desc="merkle_proof is built only for leaf positions")
    c.r1("proof-leaf-present", mp, "re:pmmr::ReadablePMMR::get_hash$", via=0, desc="merkle_proof: ok => the leaf hash is present")
