"""C09 — a crash at any persistence step is recoverable (write-ordering clause)."""
from cfg import Exprs, render, reach
from facts import callee_names, loc

CLAUSE = ("durable write order on every path: MMR backends are synced only inside the extension wrappers after the nested child commit, the outer "
          "LMDB commit follows the extension in every function that does both; temp-file saves fsync before rename and write before fsync; "
          "AppendOnlyFile::flush flushes the size file first, truncates before appending and fsyncs after writing; no file is deleted before a "
          "rename onto the same path (atomic replace); Batch::commit is exactly one heed commit; the start-up recovery loop that rewinds and "
          "forgets a block whose MMR files do not validate is present with its four steps; PMMRHandle::init_head refuses a head mismatch.")
NOT_DECIDED = "behaviour at real crash points (needs execution); cross-file atomicity of compaction (hash file / data file / prune list), the directory replace of the legacy zip sync."

X = "grin_chain::txhashset::txhashset::"
CH = "grin_chain::chain::"
B = "grin_chain::store::Batch::"
ST = "grin_store::"


def run(c):
    import r9
    c.r9("C09")
    # --- outer commit follows the extension
    for i, (fn, ext) in enumerate(((CH + "Chain::process_block_single", "grin_chain::pipe::process_block"),
                                   (CH + "Chain::process_block_header", "grin_chain::pipe::process_block_header"),
                                   (CH + "Chain::sync_block_headers", "grin_chain::pipe::process_block_headers"),
                                   (CH + "Chain::txhashset_write", X + "extending"),
                                   ("grin_chain::txhashset::desegmenter::Desegmenter::validate_complete_state", X + "extending"))):
        c.r1("commit-after-extension-%d" % (i + 1), fn, ext, sink=B + "commit", via=2, desc="%s: batch.commit only after %s succeeded" % (fn.split("::")[-1], ext.split("::")[-1]))
    # restart after a kill between the leaf-set flush and the LMDB commit: the accumulator rebuilt at open is brought in line with the committed
    # head by the rewind every extension starts with - on both arms (no-op rewind and real rewind) and before success
    EX = "grin_chain::txhashset::txhashset::Extension::"
    c.r1("recovery-rewind-rebuilds-accumulator", EX + "rewind", EX + "apply_to_bitmap_accumulator", via=2,
         desc="Extension::rewind: ok => apply_to_bitmap_accumulator on both arms (the no-op rewind re-derives the last chunk from the leaf set)")
    c.never("setup-head-commit-last", CH + "setup_head", B + "commit", X + "extending", desc="setup_head: no extension runs after the final batch.commit")
    c.never("reset-head-commit-last", CH + "Chain::reset_chain_head", B + "commit", "re:txhashset::txhashset::(extending|header_extending)$",
            desc="reset_chain_head: no extension runs after batch.commit")
    c.r3("backend-sync-only-in-wrappers", "grin_store::pmmr::PMMRBackend::sync", {X + "extending", X + "header_extending"}, floor_sites=4)
    c.r1("ext-sync-after-child-commit", X + "extending", B + "commit", sink="grin_store::pmmr::PMMRBackend::sync", via=2)
    c.r1("hext-sync-after-child-commit", X + "header_extending", B + "commit", sink="grin_store::pmmr::PMMRBackend::sync", via=2)
    # --- temp-file save
    SV = ST + "save_via_temp_file"
    c.r1("tmp-create-before-write", SV, "re:std::fs::File::create$", sink="re:ops::function::FnMut::call_mut$", via=2)
    c.r1("tmp-write-before-fsync", SV, "re:ops::function::FnMut::call_mut$", sink="re:std::fs::File::sync_all$", via=2)
    c.r1("tmp-fsync-before-rename", SV, "re:std::fs::File::sync_all$", sink="re:std::fs::rename$", via=2)
    c.r1("tmp-rename", SV, "re:std::fs::rename$", via=2)
    c.r3("leafset-flush-via-temp", SV, {"grin_store::leaf_set::LeafSet::flush", "grin_store::prune_list::PruneList::flush"}, floor_sites=2)
    # --- append-only file flush
    AF = ST + "types::AppendOnlyFile::flush"
    c.r1("aof-sizefile-first", AF, AF, sink="re:std::fs::OpenOptions::open$", via=2, extra_cuts=_fixed_size_arms(c, AF),
         desc="AppendOnlyFile::flush: a variable-size file flushes its size file before touching the data file")
    c.r1("aof-truncate-before-append", AF, "re:std::fs::File::set_len$", sink="re:std::io::Write::write_all$", via=2,
         extra_cuts=c.false_edges(AF, r"^Gt\(arg0\.buffer_start_pos_bak, 0\)$"),
         desc="AppendOnlyFile::flush: a rewound file is truncated (set_len) before the buffer is appended")
    c.r1("aof-write-before-fsync", AF, "re:std::io::Write::write_all$", sink="re:std::fs::File::sync_all$", via=2)
    c.r1("aof-fsync", AF, "re:std::fs::File::sync_all$", via=2)
    _assign_after(c, "aof-bak-reset-after-truncate", AF, "buffer_start_pos_bak", "re:std::fs::File::set_len$", c.false_edges(AF, r"^Gt\(arg0\.buffer_start_pos_bak, 0\)$"))
    # --- atomic replace: no delete of the destination before a rename onto it
    n = bad = 0
    for k, fn in c.F.fns.items():
        if fn["crate"] not in ("grin_store", "grin_chain", "grin_util", "grin_core", "grin_p2p", "grin_servers"):
            continue
        ren = [(bi, t) for bi, t in c.F.calls(k) if any(x.endswith("std::fs::rename") for x in callee_names(t))]
        if not ren:
            continue
        ex = Exprs(fn)
        rem = [(bi, t) for bi, t in c.F.calls(k) if any(x.endswith("std::fs::remove_file") for x in callee_names(t))]
        for rb, rt in ren:
            n += 1
            dst = render(ex.operand(rt["args"][1]))
            for mb, mt in rem:
                if render(ex.operand(mt["args"][0])) == dst and reach(fn, [mb], {rb}) is not None:
                    bad += 1
                    c.record("atomic-replace", "R1", k, "no fs::remove_file(p) precedes fs::rename(_, p) on the same path", "violation", [loc(mt), loc(rt)],
                             ["%s deletes `%s` and then renames another file onto it: a crash in between loses the file" % (k, dst)], key_detail="remove-then-rename")
    c.stats["call_sites"] += n
    if n < 3:
        c.lost("atomic-replace", "R1", None, "no fs::remove_file(p) precedes fs::rename(_, p) on the same path", "only %d rename sites found, floor 3" % n)
    elif not bad:
        c.record("atomic-replace", "R1", None, "no fs::remove_file(p) precedes fs::rename(_, p) on the same path (%d rename sites)" % n, "hold", [])
    # --- LMDB commit
    LC = ST + "lmdb::Batch::commit"
    c.r1("lmdb-commit", LC, "re:heed::txn::RwTxn::commit$", via=2)
    c.r3("lmdb-commit-sites", "re:heed::txn::RwTxn::commit$", {LC, ST + "lmdb::Store::new", ST + "lmdb::Store::clear", ST + "lmdb::Store::migrate_to_default_env"}, floor_sites=5)
    c.r1("chain-commit", B + "commit", LC, via=2)
    # --- start-up recovery loop
    SH = CH + "setup_head"
    bad_arm = c.false_edges(SH, r"^Result::is_ok\(txhashset::extending\(")
    starts = [e[1] for e in bad_arm]
    c.r1("init-head-before-header-rewind", SH, X + "PMMRHandle::init_head", sink=X + "header_extending", sink_where=r"Batch::header_head", via=2,
         desc="setup_head: the header MMR size is pulled back to the stored header_head (init_head) before the header extension that rewinds to it") if False else None
    c.r1("init-head-before-rewind-closure", SH, X + "PMMRHandle::init_head", sink="re:txhashset::txhashset::header_extending$", via=2,
         start="grin_chain::store::Batch::header_head", desc="setup_head: after reading header_head, init_head succeeds before the header MMR is rewound to it")
    c.r1("recovery-rewind-prev", SH, X + "extending", start=starts, sink=B + "save_body_head", via=2,
         desc="setup_head recovery arm: rewind to the previous header before moving the head back")
    c.r1("recovery-forget-block", SH, B + "delete_block", start=starts, sink=B + "save_body_head", via=2, called_only=True,
         desc="setup_head recovery arm: the bad block is deleted before the head moves back")
    c.r2_arg("recovery-prev-header", SH, B + "get_block_header", 1, must=["re:prev_block_h$"], where=r"prev_block_h", floor=1)
    c.r1("recovery-retries", SH, B + "save_body_head", start=starts, sink="grin_chain::store::ChainStore::pibd_head", via=2,
         desc="setup_head recovery arm: after moving the head back the validation is retried (loop back edge)")
    c.r2("head-consistency", X + "PMMRHandle::init_head", ops={"Ne"}, lhs=["call:Hashed::hash", "arg1"], rhs=["re:get_header_hash_by_height$|call:PMMRHandle::get_header_hash_by_height"], dominate=False,
         err=None, desc="PMMRHandle::init_head: a header MMR that disagrees with the stored head is refused")
    # --- result discipline in the store crate (shared with C06)
    c.r6("store-results", ["grin_store"], {
        "grin_store::lmdb::Store::new|Store::clear|1": "clearing an unused legacy database during migration",
        "grin_store::lmdb::Store::migrate_to_default_env|Sender::send|1": "progress notification channel",
        "grin_store::lmdb::Store::migrate_to_default_env|Sender::send|2": "progress notification channel",
        "grin_store::lmdb::Store::migrate_to_default_env|Sender::send|3": "progress notification channel",
    }, floor_checked=150)


def _fixed_size_arms(c, fn):
    key = c.getfn(fn)
    out = []
    if key:
        for bi, e, arms, els in c.guards(key):
            if render(e) == "discr(arg0.size_info)":
                am = dict(arms)
                for v, t in list(am.items()) + [("else", els)]:
                    if v != "1":
                        out.append((bi, t))
    return out


def _assign_after(c, rid, fn, field, first, bypass):
    """Every assignment to .field is preceded on all paths by a successful `first` call (or a bypass edge)."""
    from cfg import success_edges, live_blocks
    from rules import pat
    from facts import call_matches
    key = c.getfn(fn)
    d = "%s: .%s is reset only after %s" % (fn.split("::")[-1], field, first)
    if key is None:
        return c.lost(rid, "R1", fn, d, "function not found")
    f = c.F.fns[key]
    targets = set()
    for bi, b in enumerate(f["blocks"]):
        for st in b["st"]:
            if st["k"] == "assign" and st["dst"]["p"]:
                last = [p for p in st["dst"]["p"] if p != "*"]
                if last and isinstance(last[-1], dict) and last[-1].get("f") == field:
                    targets.add(bi)
    if not targets:
        return c.lost(rid, "R1", key, d, "no assignment to .%s" % field)
    cuts = list(bypass)
    rx = pat(first)
    for bi, t in c.F.calls(key):
        if call_matches(t, rx):
            cuts += success_edges(f, bi)[0]
    p = reach(f, [0], targets, cuts)
    if p is None:
        return c.record(rid, "R1", key, d, "hold", ["%s blocks %s" % (f["span"]["file"], sorted(targets))])
    from cfg import path_locs
    return c.record(rid, "R1", key, d, "violation", [], ["path:"] + path_locs(f, p), key_detail="assign-order:" + field)
