"""C01 — no value is created: acceptance funnels are complete and ordered."""
CLAUSE = ("every accepting path of Transaction::validate, TransactionBody::validate(_read), Block::validate, the block pipeline, the fork "
          "re-application loop and Extension::validate passes the kernel-sum, signature, range-proof, feature and coinbase checks (with the right "
          "overage/offset arguments); per-block running sums are saved only after the sum check succeeded, from a closed set of writers; peer-supplied "
          "state is never validated on the fast path; the subsidy constant is 60 grin.")
NOT_DECIDED = ("elliptic-curve arithmetic and libsecp results, rejection of every single-field corruption, the inductive full-state equation over histories.")

T = "grin_core::core::transaction::"
B = "grin_core::core::block::"
P = "grin_chain::pipe::"
X = "grin_chain::txhashset::txhashset::"
VKS = "grin_core::core::committed::Committed::verify_kernel_sums"
NEXT = "re:iter::traits::iterator::Iterator::next$"


def run(c):
    import r9
    c.r9("C01")
    # --- transaction
    c.r1_all("tx-validate", T + "Transaction::validate",
             [T + "TransactionBody::verify_features", T + "TransactionBody::validate", VKS], via=2)
    c.r2_arg("tx-sums-overage", T + "Transaction::validate", VKS, 1, must=["call:Transaction::overage"])
    c.r2_arg("tx-sums-offset", T + "Transaction::validate", VKS, 2, must=["arg0.offset"])
    c.r1_all("body-validate", T + "TransactionBody::validate", [T + "TransactionBody::validate_read", T + "TxKernel::batch_sig_verify"], via=2)
    c.r1("body-validate-proofs", T + "TransactionBody::validate", T + "Output::batch_verify_proofs", via=2,
         extra_cuts=c.true_edges(T + "TransactionBody::validate", r"^Vec::is_empty\(arg0\.outputs\)$"),
         desc="TransactionBody::validate: ok => batch_verify_proofs, only bypass is outputs.is_empty()")
    c.r1_all("body-validate-read", T + "TransactionBody::validate_read",
             [T + "TransactionBody::verify_weight", T + "TransactionBody::verify_no_nrd_duplicates", T + "TransactionBody::verify_sorted",
              T + "TransactionBody::verify_cut_through"], via=2)
    c.r1_all("features", T + "TransactionBody::verify_features",
             [T + "TransactionBody::verify_output_features", T + "TransactionBody::verify_kernel_features"], via=2)
    c.r2("no-coinbase-output-in-tx", T + "TransactionBody::verify_output_features", cond=r"Iterator::any\(slice::iter\(arg0\.outputs\)", err="InvalidOutputFeatures")
    c.r2("no-coinbase-kernel-in-tx", T + "TransactionBody::verify_kernel_features", cond=r"Iterator::any\(slice::iter\(arg0\.kernels\)", err="InvalidKernelFeatures")
    for i, (fn, atom) in enumerate(((T + "TransactionBody::verify_output_features@iterator::Iterator::any", "Output::is_coinbase"),
                                    (T + "TransactionBody::verify_kernel_features@iterator::Iterator::any", "TxKernel::is_coinbase"))):
        c.r1("feature-closure-%d" % i, fn, "re:::is_coinbase$", sink="return", via=2, desc="%s tests is_coinbase" % fn)
    # --- signatures
    c.r2("sig-single", T + "TxKernel::verify", cond=r"^aggsig::verify_single\(.*arg0\.excess_sig, TxKernel::msg_to_sign\(arg0\).*Commitment::to_pubkey\(arg0\.excess",
         fail_on=False, err="IncorrectSignature")
    c.r2("sig-batch", T + "TxKernel::batch_sig_verify", cond=r"^aggsig::verify_batch\(", fail_on=False, err="IncorrectSignature")
    c.r1("sig-batch-pubkey", T + "TxKernel::batch_sig_verify", "re:pedersen::Commitment::to_pubkey$", sink=NEXT, start=NEXT, via=2,
         desc="batch_sig_verify: every loop iteration derives the public key (from kernel.excess)")
    c.r1("sig-batch-msg", T + "TxKernel::batch_sig_verify", T + "TxKernel::msg_to_sign", sink=NEXT, start=NEXT, via=2,
         desc="batch_sig_verify: every loop iteration computes msg_to_sign")
    c.r2_arg("sig-batch-excess", T + "TxKernel::batch_sig_verify", "re:pedersen::Commitment::to_pubkey$", 0, must=["re:\\.excess$"])
    c.r1("proofs", T + "Output::batch_verify_proofs", "re:pedersen::verify_bullet_proof_multi$", via=2)
    c.r2_arg("proofs-args", T + "Output::batch_verify_proofs", "re:pedersen::verify_bullet_proof_multi$", 1, must=["arg0"])
    c.r2_arg("proofs-args2", T + "Output::batch_verify_proofs", "re:pedersen::verify_bullet_proof_multi$", 2, must=["arg1"])
    # --- sums
    c.r2("kernel-sum-mismatch", VKS, ops={"Ne"}, lhs=["call:Committed::sum_commitments", "arg1"], rhs=["call:Committed::sum_kernel_excesses", "arg2"],
         err="KernelSumMismatch")
    c.r1_all("kernel-sums-computed", VKS, ["grin_core::core::committed::Committed::sum_commitments", "grin_core::core::committed::Committed::sum_kernel_excesses"], via=2)
    # --- block
    c.r1_all("block-validate", B + "Block::validate",
             [T + "TransactionBody::validate", B + "Block::verify_kernel_lock_heights", B + "Block::verify_nrd_kernels_for_header_version",
              B + "Block::verify_coinbase", VKS], via=2)
    c.r2_arg("block-sums-overage", B + "Block::validate", VKS, 1, must=["call:BlockHeader::overage"])
    c.r2_arg("block-sums-offset", B + "Block::validate", VKS, 2, must=["call:Block::block_kernel_offset", "arg1"])
    c.r2("coinbase-sum", B + "Block::verify_coinbase", ops={"Ne"}, lhs=["call:pedersen::commit_sum"], rhs=["call:pedersen::commit_sum"], err="CoinbaseSumMismatch")
    c.r2_arg("coinbase-reward", B + "Block::verify_coinbase", "re:pedersen::commit_value$", 1, must=["call:consensus::reward", "call:Block::total_fees"])
    for i in (0, 1):
        c.r1("coinbase-filter-%d" % i, B + "Block::verify_coinbase@iterator::Iterator::filter#%d" % (i + 1), "re:::is_coinbase$", sink="return", via=2,
             desc="verify_coinbase filter closure #%d selects by is_coinbase" % i)
    c.const_eq("reward-60", "grin_core::consensus::REWARD", 60 * 10**9)
    c.r2_ret("overage-reward", B + "BlockHeader::overage", must=["call:num::checked_neg", "re:^item:consensus::REWARD="])
    c.r2_ret("total-overage-reward", B + "BlockHeader::total_overage", must=["call:num::checked_neg", "re:^item:consensus::REWARD=", "arg0.height"])
    c.r2_ret("reward-fn", "grin_core::consensus::reward", must=["re:^item:consensus::REWARD=", "arg0"])
    # --- pipeline
    c.r1("validate-before-extending", P + "process_block", P + "validate_block", sink=X + "extending", via=2)
    c.r1("validate_block", P + "validate_block", B + "Block::validate", via=2)
    c.r2_arg("validate_block-offset", P + "validate_block", B + "Block::validate", 1, must=["call:Batch::get_previous_header", "re:total_kernel_offset$"])
    c.r1("sums-before-apply", P + "process_block@txhashset::txhashset::extending", P + "verify_block_sums", sink=P + "apply_block_to_txhashset", via=2)
    c.r1("fork-sums-before-apply", P + "rewind_and_apply_fork", P + "verify_block_sums", sink=P + "apply_block_to_txhashset", start=NEXT, via=2,
         desc="fork loop: each re-applied block passes verify_block_sums before apply_block_to_txhashset")
    c.r1("save-sums-after-check", P + "verify_block_sums", VKS, sink="grin_chain::store::Batch::save_block_sums", via=2)
    c.r2_arg("block-sums-args", P + "verify_block_sums", VKS, 1, must=["call:BlockHeader::overage"])
    c.r2_arg("block-sums-args2", P + "verify_block_sums", VKS, 2, must=["call:BlockHeader::total_kernel_offset"])
    c.r2_arg("block-sums-prev", P + "verify_block_sums", "grin_chain::store::Batch::get_block_sums", 1, must=["re:header\\.prev_hash$"])
    # --- writers of the running sums / blocks
    c.r3("block-sums-writers", "grin_chain::store::Batch::save_block_sums",
         {P + "verify_block_sums", "grin_chain::chain::Chain::txhashset_write", "grin_chain::chain::setup_head",
          "grin_chain::txhashset::desegmenter::Desegmenter::validate_complete_state"}, floor_sites=5)
    sums = [VKS, X + "Extension::validate", X + "Extension::validate_kernel_sums"]
    c.r1("sums-writer-1", "grin_chain::chain::Chain::txhashset_write@txhashset::txhashset::extending", sums, sink="grin_chain::store::Batch::save_block_sums", via=2)
    c.r1("sums-writer-2", "grin_chain::txhashset::desegmenter::Desegmenter::validate_complete_state@txhashset::txhashset::extending", sums, sink="grin_chain::store::Batch::save_block_sums", via=2)
    c.r1("sums-writer-3", "grin_chain::chain::setup_head@txhashset::txhashset::extending#1", sums, sink="grin_chain::store::Batch::save_block_sums", via=2)
    c.r1("sums-writer-4", "grin_chain::chain::setup_head", sums, sink="grin_chain::store::Batch::save_block_sums", via=2,
         extra_cuts=c.true_edges("grin_chain::chain::setup_head", r"^slice::is_empty\(Block::kernels\(arg0\)\)$"),
         desc="setup_head (fresh node): genesis sums saved after verify_kernel_sums; only bypass is a kernel-less genesis (zero sums)")
    c.r3("block-writers", "grin_chain::store::Batch::save_block", {P + "add_block", "grin_chain::chain::setup_head"}, floor_sites=2)
    c.r3("add_block-callers", P + "add_block", {P + "process_block"}, floor_sites=1)
    # --- full-state validation
    E = X + "Extension::validate"
    c.r1_all("state-validate", E, [X + "Extension::validate_mmrs", X + "Extension::validate_roots", X + "Extension::validate_sizes"], via=2)
    genesis = c.true_edges(E, r"^Eq\(arg0\.head\.height, 0\)$")
    fast = c.true_edges(E, r"^arg2$")
    c.r1("state-validate-sums", E, X + "Extension::validate_kernel_sums", via=2, extra_cuts=genesis,
         desc="Extension::validate: ok => validate_kernel_sums, only bypass head.height == 0")
    c.r1("state-validate-proofs", E, X + "Extension::verify_rangeproofs", via=2, extra_cuts=genesis + fast,
         desc="Extension::validate: ok => verify_rangeproofs, bypasses head.height == 0 and fast_validation")
    c.r1("state-validate-sigs", E, X + "Extension::verify_kernel_signatures", via=2, extra_cuts=genesis + fast,
         desc="Extension::validate: ok => verify_kernel_signatures, bypasses head.height == 0 and fast_validation")
    if len(genesis) != 1 or len(fast) != 1:
        c.lost("state-validate-bypasses", "R2", E, "Extension::validate has exactly the genesis and fast_validation bypasses", "bypass guards found: %d genesis, %d fast" % (len(genesis), len(fast)))
    c.r1("state-proofs-batch-cleared-after-verify", X + "Extension::verify_rangeproofs", T + "Output::batch_verify_proofs", sink="re:alloc::vec::Vec::clear$", via=2,
         desc="verify_rangeproofs: a batch of commitments/proofs is cleared only after batch_verify_proofs succeeded on it")
    c.r1("state-sigs-batch-cleared-after-verify", X + "Extension::verify_kernel_signatures", T + "TxKernel::batch_sig_verify", sink="re:alloc::vec::Vec::clear$", via=2,
         desc="verify_kernel_signatures: a batch of kernels is cleared only after batch_sig_verify succeeded on it")
    c.r2_arg("state-proofs-from-mmr", X + "Extension::verify_rangeproofs", "re:alloc::vec::Vec::push$", 1, must=["re:^call:ReadablePMMR::get_data$"], floor=2,
             desc="verify_rangeproofs verifies the commitments and proofs stored in the output / range-proof MMRs")
    c.r2_arg("state-sigs-from-mmr", X + "Extension::verify_kernel_signatures", "re:alloc::vec::Vec::push$", 1, must=["re:^call:ReadablePMMR::get_data$", "arg0.kernel_pmmr"], floor=1)
    c.r1("state-sums", X + "Extension::validate_kernel_sums", VKS, via=2)
    c.r2_arg("state-sums-overage", X + "Extension::validate_kernel_sums", VKS, 1, must=["call:BlockHeader::total_overage"])
    c.r2_arg("state-sums-offset", X + "Extension::validate_kernel_sums", VKS, 2, must=["call:BlockHeader::total_kernel_offset"])
    c.r2_arg("peer-state-never-fast-1", "grin_chain::chain::Chain::txhashset_write@txhashset::txhashset::extending", E, 2, const=0,
             desc="txhashset_write validates the received state with fast_validation = false")
    c.r2_arg("peer-state-never-fast-2", "grin_chain::txhashset::desegmenter::Desegmenter::validate_complete_state@txhashset::txhashset::extending", E, 2, const=0,
             desc="validate_complete_state validates the PIBD state with fast_validation = false")


def run_thorough(c):
    import witness
    witness.run(c, "C01")

