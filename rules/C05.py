"""C05 — PoW verification (narrow): sibling agreement of the five verifiers, variant-selection table, padding refusal."""
import re
from cfg import render, err_variant_reached
from facts import fn_loc

CLAUSE = ("the five Cuckoo-family verifiers agree on their rejection guards (wrong cycle length, edge above the edge mask, edges not strictly "
          "ascending, endpoint xor non-zero, final cycle-length equality, and at least two further rejections inside the cycle walk), recognised by "
          "operator and operand origins; the verifier is chosen by chain type, edge bits and header version exactly as the schedule says; verify_size "
          "builds the context from the header's own edge bits and proof length and sets the pre-PoW header before verifying; Proof::read refuses "
          "out-of-range edge bits, short packings and non-zero padding; difficulty derivation uses no clock or entropy.")
NOT_DECIDED = "that acceptance is exactly 'the nonces form a simple cycle of the required length in the keyed graph' (graph reasoning over values), siphash correctness."

POW = "grin_core::pow::"
VERIFIERS = [
    "<grin_core::pow::cuckaroo::CuckarooContext as grin_core::pow::types::PoWContext>::verify",
    "<grin_core::pow::cuckarood::CuckaroodContext as grin_core::pow::types::PoWContext>::verify",
    "<grin_core::pow::cuckaroom::CuckaroomContext as grin_core::pow::types::PoWContext>::verify",
    "<grin_core::pow::cuckarooz::CuckaroozContext as grin_core::pow::types::PoWContext>::verify",
    "grin_core::pow::cuckatoo::CuckatooContext::verify_impl",
]


def _n_verification_errors(fn):
    n = 0
    for b in fn["blocks"]:
        if b["cleanup"]:
            continue
        for st in b["st"]:
            if st["k"] == "assign" and st["rv"]["r"] == "agg" and st["rv"].get("adt", "").endswith("pow::error::Error") and st["rv"].get("variant") == "Verification":
                n += 1
    return n


def run(c):
    import r9
    c.r9("C05")
    F = c.F
    counts = {}
    for v in VERIFIERS:
        tag = re.search(r"pow::(cuck\w+)::", v).group(1)
        c.r2("size-%s" % tag, v, ops={"Ne"}, lhs=["call:Proof::proof_size", "arg1"], rhs=["call:global::proofsize"], err="Verification")
        c.r2("edge-mask-%s" % tag, v, ops={"Gt"}, lhs=["call:Index::index", "arg1.nonces"], rhs=["arg0.params.edge_mask"], err="Verification", dominate=False)
        c.r2("ascending-%s" % tag, v, ops={"Le"}, lhs=["call:Index::index", "arg1.nonces"], rhs=["call:Index::index", "arg1.nonces", "op:SubWithOverflow", "const:1"], err="Verification",
             dominate=False)
        c.r2("endpoints-%s" % tag, v, ops={"Ne"}, lhs=["op:BitXor"], err="Verification", dominate=False, strict_ops=False,
             desc="%s: the xor of all edge endpoints must cancel (endpoints match up)" % tag)
        c.r2("cycle-length-%s" % tag, v, ops={"Eq"}, lhs=["op:AddWithOverflow"], rhs=["re:proof_size"], fail_on=False, err="Verification", strict_ops=False,
             desc="%s: accepted only if the walk closed after exactly proof_size edges" % tag)
        key = c.getfn(v)
        if key:
            counts[tag] = _n_verification_errors(F.fns[key])
    c.stats["verification_error_sites"] = sum(counts.values())
    d = "every verifier has at least 7 distinct rejection sites (5 shared guards + branch and dead-end rejections in the walk)"
    low = {k: n for k, n in counts.items() if n < 7}
    if len(counts) < 5 or low:
        c.record("sibling-rejections", "R7", None, d, "violation", [], ["rejection sites per verifier: %s" % counts], key_detail="siblings")
    else:
        c.record("sibling-rejections", "R7", None, d, "hold", ["%s: %d" % x for x in sorted(counts.items())])
    c.r1("cuckatoo-delegates", "<grin_core::pow::cuckatoo::CuckatooContext as grin_core::pow::types::PoWContext>::verify", POW + "cuckatoo::CuckatooContext::verify_impl", via=2)
    # the walk of every verifier is bounded: impls of PoWContext::verify are exactly these five
    impls = sorted(k for k in F.fns if k.endswith(" as grin_core::pow::types::PoWContext>::verify"))
    if len(impls) != 5:
        c.record("verifier-set", "R7", None, "PoWContext::verify has exactly the five known implementations", "violation", [], ["found: %s" % impls], key_detail="impls")
    else:
        c.record("verifier-set", "R7", None, "PoWContext::verify has exactly the five known implementations", "hold", [fn_loc(F.fns[k]) for k in impls])
    # --- variant selection
    CP = "grin_core::global::create_pow_context"
    key = c.getfn(CP)
    d = "create_pow_context: cuckaroo family only for Mainnet/Testnet with edge_bits <= 29, picked by header version 1/2/3/4 (no context otherwise); cuckatoo for everything else"
    if key:
        f = F.fns[key]
        table = {}
        for bi, e, arms, els in c.guards(key):
            if render(e) == "consensus::header_version(arg0).0":
                from cfg import succs
                for v, tgt in list(arms) + [("else", els)]:
                    nm = _first_call(F, f, tgt)
                    table[v] = nm
        want = {"1": "new_cuckaroo_ctx", "2": "new_cuckarood_ctx", "3": "new_cuckaroom_ctx", "4": "new_cuckarooz_ctx", "else": "no_cuckaroo_ctx"}
        got = {k: (v or "").split("::")[-1] for k, v in table.items()}
        if got != want:
            c.record("variant-table", "R7", key, d, "violation", [fn_loc(f)], ["table found: %s, expected %s" % (got, want)], key_detail="variants")
        else:
            c.record("variant-table", "R7", key, d, "hold", ["v%s -> %s" % x for x in sorted(got.items())])
        c.r2_edge("cuckaroo-only-small-graphs", CP, [(r"^Gt\(arg1, 29\)$", "false")], "grin_core::consensus::header_version",
                  desc="create_pow_context: the cuckaroo family is considered only when edge_bits <= 29")
        c.r2_edge("cuckatoo-for-large-graphs", CP, [(r"^Gt\(arg1, 29\)$", "true"), (r"^PartialEq::eq\(global::get_chain_type\(\), ", "false")], POW + "cuckatoo::new_cuckatoo_ctx",
                  desc="create_pow_context: cuckatoo is used for edge_bits > 29 or non-production chain types")
    else:
        c.lost("variant-table", "R7", CP, d, "function not found")
    # --- verify_size
    VS = POW + "verify_size"
    c.r1("verify-after-set-header", VS, POW + "types::PoWContext::set_header_nonce", sink=POW + "types::PoWContext::verify", via=2)
    c.r1("verify-size-verifies", VS, POW + "types::PoWContext::verify", via=2)
    c.r2_arg("ctx-edge-bits", VS, "grin_core::global::create_pow_context", 1, must=["call:ProofOfWork::edge_bits", "arg0.pow"])
    c.r2_arg("ctx-proof-len", VS, "grin_core::global::create_pow_context", 2, must=["call:Vec::len", "arg0.pow.proof.nonces"])
    c.r2_arg("ctx-height", VS, "grin_core::global::create_pow_context", 0, must=["arg0.height"])
    c.r2_arg("header-pre-pow", VS, POW + "types::PoWContext::set_header_nonce", 1, must=["call:BlockHeader::pre_pow", "arg0"])
    c.r2_arg("verify-own-proof", VS, POW + "types::PoWContext::verify", 1, must=["arg0.pow.proof"])
    # --- proof decoding
    PR = "<grin_core::pow::types::Proof as grin_core::ser::Readable>::read"
    c.r2("edge-bits-zero", PR, ops={"Eq"}, lhs=["call:Reader::read_u8"], rhs=["const:0"], err="CorruptedData")
    c.r2("edge-bits-max", PR, ops={"Gt"}, lhs=["call:Reader::read_u8"], rhs=["const:63"], err="CorruptedData")
    c.r2("short-packing", PR, ops={"Lt"}, lhs=["call:Proof::pack_len"], rhs=["const:8"], err="CorruptedData", dominate=False)
    c.r2("padding-zero", PR, ops={"Ne"}, lhs=["call:types::read_number"], rhs=["const:0"], err="CorruptedData", dominate=False, strict_ops=False)
    # --- determinism of difficulty derivation
    import r4
    c.no_reach_cg("difficulty-deterministic", ["grin_core::pow::types::ProofOfWork::to_difficulty", "grin_core::pow::types::Difficulty::from_proof_adjusted" if "grin_core::pow::types::Difficulty::from_proof_adjusted" in F.fns else "grin_core::pow::types::ProofOfWork::to_difficulty"],
                  r4.ENTROPY_CALL, floor_nodes=3, desc="no clock or entropy source reachable from ProofOfWork::to_difficulty")


def _first_call(F, f, start, limit=6):
    import collections
    from cfg import succs
    from facts import callee_names
    seen = set()
    q = collections.deque([start])
    while q and len(seen) < limit:
        b = q.popleft()
        if b in seen:
            continue
        seen.add(b)
        t = f["blocks"][b]["term"]
        if t["k"] == "call":
            return callee_names(t)[0]
        for s in succs(f)[b]:
            q.append(s)
    return None
