"""C02 — inputs spend existing unspent outputs exactly once, per fork."""
CLAUSE = ("UTXO validation on the block's own fork (after rewinding to its ancestors) precedes and dominates state application, also for every "
          "re-applied fork block; an input is accepted only when the position index points at a stored output with the same commitment, an "
          "output only when no stored output has its commitment; apply/rewind bookkeeping (MMR push/prune, position index, spent index) is paired; "
          "leaf-set, prune and position-index mutators have closed caller sets; every MMR view refuses positions beyond the size it was opened at.")
NOT_DECIDED = "equality of the resulting unspent set with a replay of the fork from genesis; MMR position arithmetic."

P = "grin_chain::pipe::"
X = "grin_chain::txhashset::txhashset::"
U = "grin_chain::txhashset::utxo_view::UTXOView::"
E = X + "Extension::"
B = "grin_chain::store::Batch::"
NEXT = "re:iter::traits::iterator::Iterator::next$"
PM = "grin_core::core::pmmr::pmmr::PMMR::"


def run(c):
    import r9
    # the statement quantifies over "interleaved compaction and reopen": the compaction helpers (named only by C08's mechanism list) decide
    # which spent positions compaction may physically remove, i.e. whether an output spent inside the horizon survives a reorg
    c.r9("C02", also=[("C08", r"txhashset::input_pos_to_rewind$|TxHashSet::compact$|PMMRBackend::check_compact$|PMMRBackend::pos_to_rm$")])
    # --- fork-local validation dominates application
    CL = P + "process_block@txhashset::txhashset::extending"
    c.r1("rewind-before-utxo", CL, P + "rewind_and_apply_fork", sink=P + "validate_utxo", via=2)
    c.r1("utxo-before-apply", CL, P + "validate_utxo", sink=P + "apply_block_to_txhashset", via=2)
    F = P + "rewind_and_apply_fork"
    c.r1("fork-rewind-first", F, E + "rewind", sink=P + "apply_block_to_txhashset", via=2,
         desc="rewind_and_apply_fork: the extension is rewound to the fork point before any block is re-applied")
    c.r1("fork-utxo-before-apply", F, P + "validate_utxo", sink=P + "apply_block_to_txhashset", start=NEXT, via=2,
         desc="fork loop: every re-applied block passes validate_utxo first")
    c.r1("fork-header-first", F, P + "rewind_and_apply_header_fork", sink=E + "rewind", via=2)
    c.r1("validate_utxo", P + "validate_utxo", U + "validate_block", via=2, desc="pipe::validate_utxo returns UTXOView::validate_block's verdict")
    c.r2_arg("validate_utxo-view", P + "validate_utxo", U + "validate_block", 0, must=["call:Extension::utxo_view", "arg1.extension", "arg1.header_extension"],
             desc="validate_utxo uses the view of the extension pair (fork-local state), not the committed txhashset")
    c.r1("apply_block_to_txhashset", P + "apply_block_to_txhashset", E + "apply_block", via=2)
    # --- UTXO view
    for fn in ("validate_block", "validate_tx"):
        c.r1("view-%s-inputs" % fn, U + fn, U + "validate_inputs", via=2)
        c.loop("view-%s-outputs" % fn, U + fn, U + "validate_output", over=r"::outputs\(arg1\)")
    VI = U + "validate_input"
    c.r1("input-needs-index", VI, B + "get_output_pos_height", via=2)
    c.r1("input-needs-data", VI, "re:ReadablePMMR>::get_data$|pmmr::ReadablePMMR::get_data$", via=2,
         desc="validate_input: ok only if the indexed position still holds data in the (fork-local) output MMR")
    c.r2("input-commitment-match", VI, cond=r"PartialEq::eq\(OutputIdentifier::commitment\(ReadablePMMR::get_data\(arg0\.output_pmmr, .*\), arg1\)$", fail_on=False,
         desc="validate_input: ok only if the stored output's commitment equals the input")
    c.r2_arg("input-data-pos", VI, "re:ReadablePMMR>::get_data$|pmmr::ReadablePMMR::get_data$", 1, must=["call:Batch::get_output_pos_height", "arg1"])
    c.r2("output-duplicate", U + "validate_output", cond=r"PartialEq::eq\(OutputIdentifier::commitment\(ReadablePMMR::get_data\(arg0\.output_pmmr, Batch::get_output_pos\(arg2,.*Output::commitment\(arg1\)\)$",
         fail_on=True, err="DuplicateCommitment",
         bypass=[(r"^discr\(Batch::get_output_pos\(arg2, Output::commitment\(arg1\)\)\)$", 1), (r"^discr\(ReadablePMMR::get_data\(arg0\.output_pmmr, Batch::get_output_pos\(", 0)],
         desc="validate_output: a stored output with the same commitment is a DuplicateCommitment; only bypasses: no index entry / no data at the indexed position")
    c.r1("inputs-commit-only", U + "validate_inputs@iterator::Iterator::map#1", VI, via=2)
    c.r1("inputs-features", U + "validate_inputs@iterator::Iterator::map#2", VI, via=2)
    c.r2("inputs-features-match", U + "validate_inputs@iterator::Iterator::map#2@result::Result::and_then", cond=r"^PartialEq::eq\(arg1\.0, arg0\.0\)$", fail_on=False,
         desc="validate_inputs (features+commit): the stored identifier must equal the full input")
    c.r2_ret("inputs-collect", U + "validate_inputs", must=["call:Iterator::collect", "call:Iterator::map", "arg1"])
    G = X + "TxHashSet::get_unspent"
    # --- apply
    AI = E + "apply_input"
    c.r2("spent-once", AI, cond_atoms=["call:PMMR::prune", "arg0.output_pmmr", "arg2.pos", "re:\\.@(Ok|Continue)\\.0$"], fail_on=False, err="AlreadySpent",
         desc="apply_input: prune returning Ok(false) (not in the leaf set) is AlreadySpent")
    c.r1("prune-output", AI, PM + "prune", require_where=r"^arg0\.output_pmmr", via=2)
    c.r1("prune-rproof", AI, PM + "prune", require_where=r"^arg0\.rproof_pmmr, SubWithOverflow\(arg2\.pos, 1\)", via=2)
    c.r1("prune-rproof-after-output", AI, PM + "prune", require_where=r"^arg0\.output_pmmr", sink=PM + "prune", sink_where=r"^arg0\.rproof_pmmr", via=2)
    AO = E + "apply_output"
    c.r2("no-duplicate-output", AO, cond=r"PartialEq::eq\(OutputIdentifier::commitment\(ReadablePMMR::get_data\(arg0\.output_pmmr, Batch::get_output_pos\(arg2,.*Output::commitment\(arg1\)\)$",
         fail_on=True, err="DuplicateCommitment", sink=PM + "push",
         bypass=[(r"^discr\(Batch::get_output_pos\(arg2, Output::commitment\(arg1\)\)\)$", 1), (r"^discr\(ReadablePMMR::get_data\(arg0\.output_pmmr, Batch::get_output_pos\(", 0)])
    c.r1("push-output", AO, PM + "push", require_where=r"^arg0\.output_pmmr, Output::identifier\(arg1\)", via=2)
    c.r1("push-rproof", AO, PM + "push", require_where=r"^arg0\.rproof_pmmr, Output::proof\(arg1\)", via=2)
    c.r2("push-same-size", AO, ops={"Ne"}, lhs=["call:ReadablePMMR::unpruned_size", "arg0.output_pmmr"], rhs=["call:ReadablePMMR::unpruned_size", "arg0.rproof_pmmr"], err="Other")
    c.r2("push-same-pos", AO, ops={"Ne"}, lhs=["call:PMMR::push", "arg0.output_pmmr"], rhs=["call:PMMR::push", "arg0.rproof_pmmr"], err="Other")
    AB = E + "apply_block"
    c.loop("apply-outputs", AB, E + "apply_output", over=r"Block::outputs")
    c.loop("apply-output-index", AB, B + "save_output_pos_height", over=r"Block::outputs")
    c.r1("apply-validate-inputs", AB, U + "validate_inputs", via=2)
    c.loop("apply-inputs", AB, E + "apply_input", over=r"validate_inputs")
    c.loop("apply-input-index", AB, B + "delete_output_pos_height", over=r"validate_inputs")
    c.r1("apply-inputs-after-validate", AB, U + "validate_inputs", sink=E + "apply_input", via=2)
    c.r1("apply-spent-index", AB, B + "save_spent_index", via=2)
    c.r1("apply-kernels", AB, E + "apply_kernels", via=2)
    c.r2_arg("apply-input-from-validated", AB, E + "apply_input", 2, must=["call:UTXOView::validate_inputs"])
    # --- rewind
    RS = E + "rewind_single_block"
    c.r1("rewind-mmrs", RS, E + "rewind_mmrs_to_pos", via=2)
    c.r2_arg("rewind-spent", RS, E + "rewind_mmrs_to_pos", 3, must=["re:^call:Batch::(get_spent_index|get_block_input_bitmap)$"])
    c.loop("rewind-output-index", RS, B + "delete_output_pos_height", over=r"Block::outputs", called_only=True,
           desc="rewind_single_block: the position-index entry of every output of the rewound block is deleted (a missing entry is tolerated)")
    c.loop("rewind-unspend-index", RS, B + "save_output_pos_height", over=r"Batch::get_spent_index",
         extra_cuts=_none_arms(c, RS, r"^discr\(ReadablePMMR::get_data\(arg0\.output_pmmr"),
         desc="rewind_single_block: every re-unspent position still holding data is written back to the position index")
    RM = E + "rewind_mmrs_to_pos"
    for tree, arg in (("output_pmmr", "arg1"), ("rproof_pmmr", "arg1"), ("kernel_pmmr", "arg2")):
        c.r1("rewind-" + tree, RM, PM + "rewind", require_where=r"^arg0\.%s, %s," % (tree, arg), via=2)
    c.r2_arg("rewind-same-bitmap", RM, PM + "rewind", 2, must=["arg3"], where=r"^arg0\.(output|rproof)_pmmr", floor=2)
    c.r1("rewind-loop", E + "rewind", E + "rewind_single_block", sink="re:store::Batch::get_previous_header$", start="re:store::Batch::get_block$", via=2,
         desc="Extension::rewind: each block above the target is rewound via rewind_single_block")
    # --- leaf set
    LS = "grin_store::leaf_set::LeafSet::"
    c.r3("leafset-add", LS + "add", {"re:dummy"} | {"<grin_store::pmmr::PMMRBackend<T> as grin_core::core::pmmr::backend::Backend<T>>::append"}, floor_sites=1)
    c.r3("leafset-remove", LS + "remove", {"<grin_store::pmmr::PMMRBackend<T> as grin_core::core::pmmr::backend::Backend<T>>::remove",
                                           "<grin_store::pmmr::PMMRBackend<T> as grin_core::core::pmmr::backend::Backend<T>>::remove_from_leaf_set"}, floor_sites=2)
    c.r3("leafset-rewind", LS + "rewind", {"<grin_store::pmmr::PMMRBackend<T> as grin_core::core::pmmr::backend::Backend<T>>::rewind"}, floor_sites=1)
    c.r3("backend-remove", "grin_core::core::pmmr::backend::Backend::remove", {PM + "prune"}, floor_sites=1)
    c.r3("pmmr-prune", PM + "prune", {E + "apply_input"}, floor_sites=2)
    c.r3("remove_from_leaf_set", "re:::remove_from_leaf_set$",
         {E + "update_leaf_sets", PM + "remove_from_leaf_set", E + "apply_output_segment", E + "apply_rangeproof_segment"}, floor_sites=4)
    c.r3("output-pos-writers", B + "save_output_pos_height", {E + "apply_block", E + "rewind_single_block", X + "TxHashSet::init_output_pos_index"}, floor_sites=3)
    c.r3("output-pos-deleters", B + "delete_output_pos_height", {E + "apply_block", E + "rewind_single_block"}, floor_sites=2)
    c.r3("spent-index-writers", B + "save_spent_index", {E + "apply_block", "grin_chain::chain::setup_head"}, floor_sites=2)
    c.r1("leafset-rewind-removes", LS + "rewind", "re:croaring::bitmap::.*remove_range", sink="return", via=2)
    c.r1("leafset-rewind-restores", LS + "rewind", "re:croaring::bitmap::.*or_inplace", sink="return", via=2)
    c.r2_arg("leafset-rewind-restores-arg", LS + "rewind", "re:croaring::bitmap::.*or_inplace", 1, must=["arg2"])
    # --- MMR views are bounded by the size they were opened at (fork-local reads)
    n = 0
    for impl in ("grin_core::core::pmmr::pmmr::PMMR<'a, T, B>", "grin_core::core::pmmr::readonly_pmmr::ReadonlyPMMR<'a, T, B>"):
        for m in ("get_hash", "get_data", "get_from_file", "get_peak_from_file", "get_data_from_file"):
            n += 1
            c.r2("view-bound-%d" % n, "<%s as grin_core::core::pmmr::pmmr::ReadablePMMR>::%s" % (impl, m), ops={"Ge"}, lhs=["arg1"], rhs=["arg0.size"],
                 fail_on=True, sink="re:pmmr::backend::Backend::get_\\w+$", desc="%s::%s refuses pos >= size before touching the backend" % (impl.split("::")[-1], m))
    c.r2("header-height-bound", X + "PMMRHandle::get_header_hash_by_height", ops={"Ge"}, lhs=["arg1"], rhs=["arg0.size"], err="InvalidHeaderHeight")


def _none_arms(c, fn, cond):
    key = c.getfn(fn)
    out = []
    if key:
        from cfg import render
        import re
        for bi, e, arms, els in c.guards(key):
            if re.search(cond, render(e)):
                am = dict(arms)
                # Option: None = 0
                out.append((bi, am.get("0", els)))
    return out
