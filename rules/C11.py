"""C11 — decoding untrusted bytes never panics, aborts, hangs or over-allocates."""
import r4

CLAUSE = ("from every untrusted decoder entry (p2p codec and message decoders, handshake reads, Merkle-proof and segment decoders, read-time "
          "validators, stateless segment validation) no panic-capable construct (unwrap/expect/panic!/assert!/index/slice-copy/bytes::Buf getters/"
          "division or bounds asserts under release arithmetic) and no allocation sized by wire data is reachable in the instantiated call graph, "
          "except sites discharged by a site-local proof (constant divisor/index/size, full-range slice, min-capped size) or frozen per function "
          "and construct kind with a reason; the message-length limit dominates every body read; length guards dominate the buffer getters.")
NOT_DECIDED = "hang-freedom beyond loop progress, memory use of third-party decoders (secp, croaring), value-level index arithmetic inside the PoW verifiers."

POW = "indices are n < size, 2n(+1) < 2*size or (x & mask) <= mask into vectors of 2*size / mask+1 elements; size == global::proofsize() is checked first (value-level bound, exercised by the PoW vectors)"
POWA = "vector sizes derive from global::proofsize() (a chain constant <= 42) checked against proof.proof_size() first"
FIXED = "operand is the Vec returned by read_fixed_bytes(N) with N a constant >= the slice bound"
HW = "HashWriter is an infallible Writer (write_fixed_bytes never returns Err)"
ALLOW = {
    "<D as grin_core::core::hash::Hashed>::hash|Result::unwrap": (1, HW),
    "grin_core::core::hash::HashWriter::finalize|slice::copy_from_slice": (1, "blake2b(32) result is exactly 32 bytes"),
    "<grin_core::core::hash::Hash as grin_core::ser::Readable>::read|slice::copy_from_slice": (1, FIXED + " (Hash::LEN = 32)"),
    "grin_core::core::block::BlockHeader::pre_pow|Result::unwrap": (3, "writes into a Vec sink (BinWriter over Vec cannot fail)"),
    "grin_core::core::block::read_block_header|Option::unwrap": (3, "two constant dates (and_hms_opt on constants) and a timestamp that was range-checked two lines above"),
    "<grin_core::core::transaction::NRDRelativeHeight as core::convert::TryFrom<u16>>::try_from|Result::expect": (1, "conversion of the constant WEEK_HEIGHT"),
    "<grin_core::core::block::UntrustedBlockHeader as grin_core::ser::Readable>::read|Add::add": (1, "Utc::now() + small configured duration (future time limit)"),
    "grin_core::global::get_chain_type::{closure#0}|panicking::panic_fmt": (1, "configuration precondition: chain type is initialised at start-up before any peer connects"),
    "grin_util::OneTime::borrow|Option::expect": (1, "configuration precondition: one-time globals are initialised at start-up"),
    # reached through upstream generic code (Iterator::collect -> IteratingReader::next -> T::read; error Display of a Hash)
    "<grin_core::core::id::ShortId as grin_core::ser::Readable>::read|slice::copy_from_slice": (1, FIXED + " (SHORT_ID_SIZE = 6; rule shortid-len)"),
    "<grin_core::core::hash::Hash as core::fmt::Debug>::fmt|Index::index": (1, "[..12] of the 64-character hex rendering of a 32-byte hash"),
    "grin_util::hex::to_hex|Result::expect": (1, "fmt::Write into a String never returns Err"),
    "grin_util::hex::to_hex|String::with_capacity": (1, "2 x the length of a byte slice that is already in memory (a 32-byte hash on the decoder paths)"),
    # serialisation primitives
    "<grin_core::ser::BinReader<'a, R> as grin_core::ser::Reader>::read_fixed_bytes|vec::from_elem": (1, "length > 100_000 is refused first (guard rule fixed-bytes-cap-bin)"),
    "<grin_core::ser::BufReader<'a, B> as grin_core::ser::Reader>::read_fixed_bytes|vec::from_elem": (1, "has_remaining(len) succeeded first (guard rule buf-*-guarded)"),
    "<grin_core::ser::BufReader<'a, B> as grin_core::ser::Reader>::read_fixed_bytes|Buf::copy_to_slice": (1, "has_remaining(len) succeeded first"),
    "<grin_core::ser::BufReader<'a, B> as grin_core::ser::Reader>::read_u8|Buf::get_u8": (1, "has_remaining(1) succeeded first"),
    "<grin_core::ser::BufReader<'a, B> as grin_core::ser::Reader>::read_u16|Buf::get_u16": (1, "has_remaining(2) succeeded first"),
    "<grin_core::ser::BufReader<'a, B> as grin_core::ser::Reader>::read_u32|Buf::get_u32": (1, "has_remaining(4) succeeded first"),
    "<grin_core::ser::BufReader<'a, B> as grin_core::ser::Reader>::read_u64|Buf::get_u64": (1, "has_remaining(8) succeeded first"),
    "<grin_core::ser::BufReader<'a, B> as grin_core::ser::Reader>::read_i32|Buf::get_i32": (1, "has_remaining(4) succeeded first"),
    "<grin_core::ser::BufReader<'a, B> as grin_core::ser::Reader>::read_i64|Buf::get_i64": (1, "has_remaining(8) succeeded first"),
    "grin_core::ser::Writer::write_empty_bytes|vec::from_elem": (1, "writer side; length is a caller constant (8 or 16)"),
    "<secp256k1zkp::Signature as grin_core::ser::Readable>::read|Index::index": (1, FIXED),
    "<secp256k1zkp::Signature as grin_core::ser::Readable>::read|IndexMut::index_mut": (1, "constant bound into a constant-size array"),
    "<secp256k1zkp::Signature as grin_core::ser::Readable>::read|slice::clone_from_slice": (1, "both slices have the constant length AGG_SIGNATURE_SIZE"),
    "<secp256k1zkp::Signature as grin_core::ser::Readable>::read|Result::unwrap": (1, "from_raw_data on a 64-byte array is a plain copy"),
    "<secp256k1zkp::pedersen::Commitment as grin_core::ser::Readable>::read|Index::index": (1, FIXED),
    "<secp256k1zkp::pedersen::Commitment as grin_core::ser::Readable>::read|IndexMut::index_mut": (1, "constant bound into a constant-size array"),
    "<secp256k1zkp::pedersen::Commitment as grin_core::ser::Readable>::read|slice::clone_from_slice": (1, "both slices have the constant length PEDERSEN_COMMITMENT_SIZE"),
    "<secp256k1zkp::pedersen::RangeProof as grin_core::ser::Readable>::read|IndexMut::index_mut": (1, "p.len() <= MAX_PROOF_SIZE is enforced by the read_bytes_len_prefix cap check above (guard rule rangeproof-len)"),
    "<secp256k1zkp::pedersen::RangeProof as grin_core::ser::Readable>::read|slice::clone_from_slice": (1, "both slices have length p.len()"),
    "grin_keychain::types::BlindingFactor::from_slice|IndexMut::index_mut": (1, "bound is min(SECRET_KEY_SIZE, data.len())"),
    "grin_keychain::types::BlindingFactor::from_slice|Index::index": (1, "bound is min(SECRET_KEY_SIZE, data.len())"),
    "grin_keychain::types::BlindingFactor::from_slice|slice::clone_from_slice": (1, "both slices have the same min-bounded length"),
    "<grin_p2p::types::PeerAddr as grin_core::ser::Readable>::read|Index::index": (12, "ip is the result of read_fixed_bytes(4) / the 8-element vector built by try_iter_map_vec!(0..8); constant indices below those lengths"),
    # p2p framing
    "grin_p2p::msg::read_body|vec::from_elem": (1, "msg_len of a header accepted by MsgHeaderWrapper::read (<= 4 x per-type maximum)"),
    "grin_p2p::msg::read_discard|vec::from_elem": (1, "msg_len of a header accepted by MsgHeaderWrapper::read (<= 4 x default maximum)"),
    "grin_p2p::codec::Codec::read_inner|BytesMut::reserve": (1, "to_read <= next_len, which is bounded in every codec state (C19 next-len rules)"),
    "grin_p2p::codec::Codec::read_inner|BytesMut::resize": (1, "the same fill step spelled as resize(pre_len + to_read, 0): the new length is next_len, bounded in every codec state (C19 next-len and fill-size rules)"),
    "grin_p2p::codec::Codec::read_inner|BytesMut::split_to": (3, "buffer.len() >= next_len after the fill step above"),
    "grin_p2p::codec::Codec::read_inner|Buf::advance": (1, "buffer.len() >= next_len after the fill step above"),
    "grin_p2p::codec::Codec::read_inner|IndexMut::index_mut": (1, "pre_len is the buffer length before it was extended"),
    "<grin_p2p::msg::Locator as grin_core::ser::Readable>::read|Vec::with_capacity": (1, "len > MAX_LOCATORS is refused first (guard rule locator-cap)"),
    "<grin_p2p::msg::PeerAddrs as grin_core::ser::Readable>::read|Vec::with_capacity": (1, "peer_count > MAX_PEER_ADDRS is refused first (guard rule peer-addrs-cap)"),
    # bitmap segments
    "<grin_chain::txhashset::bitmap_accumulator::BitmapBlock as grin_core::ser::Readable>::read|BitVec::from_elem": (2, "n_bits = n_chunks * 1024 with n_chunks (u8) <= NCHUNKS checked first"),
    "<grin_chain::txhashset::bitmap_accumulator::BitmapBlock as grin_core::ser::Readable>::read|BitVec::set": (2, "pos >= n_bits is refused first (guard rule bitmap-block-pos)"),
    "<grin_chain::txhashset::bitmap_accumulator::BitmapSegment as grin_core::ser::Readable>::read|Vec::with_capacity": (1, "n_blocks (u16) <= max_blocks derived from a height <= 13 (guard rule bitmap-seg-blocks)"),
    "grin_chain::txhashset::bitmap_accumulator::BitmapAccumulator::root|Result::expect": (1, "internal accumulator MMR over a VecBackend always has a root"),
    "<grin_core::core::pmmr::vec_backend::VecBackend<T> as grin_core::core::pmmr::backend::Backend<T>>::get_from_file|Result::expect": (1, "u64 -> usize on a 64-bit target"),
    "grin_chain::txhashset::bitmap_accumulator::<impl core::convert::From<grin_chain::txhashset::bitmap_accumulator::BitmapSegment> for grin_core::core::pmmr::segment::Segment<grin_chain::txhashset::bitmap_accumulator::BitmapChunk>>::from|Result::expect":
        (1, "into_segment re-runs exactly the shape validation (validate_blocks / try_n_chunks) that BitmapSegment::read already passed; chunks.get_mut is in range by that validation"),
    "grin_chain::txhashset::bitmap_accumulator::BitmapSegment::into_segment|BitVec::set": (1, "index is i % LEN_BITS into a chunk of LEN_BITS bits"),
    "grin_chain::txhashset::bitmap_accumulator::BitmapSegment::into_segment|Vec::with_capacity": (2, "n_chunks <= max_chunks(identifier) <= 2^13 (validate_blocks, guard rule bitmap-seg-chunks)"),
    "grin_core::core::pmmr::segment::Segment::from_parts|panicking::assert_failed": (2, "callers: Segment::read passes vectors read with equal counts; into_segment builds equal-length vectors"),
    "grin_core::core::pmmr::segment::Segment::from_parts|panicking::panic": (2, "positions are strictly increasing: enforced by read_segment_positions (SortError) / built by insertion_to_pmmr_index on increasing indices"),
    # segments
    "grin_core::core::pmmr::segment::Segment::root|Option::unwrap": (4, "post-order stack discipline over the segment's own subtree: holds once the identifier is known to describe a segment of this MMR "
                                                                      "(height < 64 and a non-empty position range) - enforced by the guard rules segment-root-height / segment-root-nonempty"),
    "grin_core::core::pmmr::segment::Segment::root|Vec::with_capacity": (1, "2 * height with height: u8"),
    "grin_core::core::pmmr::segment::Segment::first_unpruned_parent|Option::unwrap": (1, "root() returns None only on the prunable path, where bitmap is Some"),
    # proof of work (read-time PoW validation of untrusted headers)
    "<grin_core::pow::types::Proof as grin_core::ser::Readable>::read|Vec::with_capacity": (1, "global::proofsize() is a chain constant"),
    "grin_core::pow::types::Proof::zero|vec::from_elem": (1, "proof size is a chain constant"),
    "grin_core::pow::types::Proof::pack_nonces|vec::from_elem": (1, "pack_len(edge_bits) <= (63 * proofsize + 7) / 8"),
    "grin_core::pow::types::Proof::pack_nonces|Index::index": (1, "0..nonces.len()"),
    "grin_core::pow::types::extract_bits|Index::index": (1, "bit-packing bounds: read_from + 8 <= bits.len() by the bytes_len >= 8 guard in Proof::read"),
    "grin_core::pow::types::extract_bits|slice::copy_from_slice": (1, "8-byte window into an 8-byte buffer"),
    "grin_core::pow::types::pack_bits|IndexMut::index_mut": (2, "bit-packing bounds over a buffer of pack_len bytes"),
    "grin_core::pow::types::pack_bits|Index::index": (1, "remainder < 8"),
    "grin_core::pow::types::pack_bits|slice::copy_from_slice": (2, "equal-length windows by construction"),
    "grin_core::pow::siphash::siphash_block|Index::index": (2, "index < SIPHASH_BLOCK_SIZE into a vector of that size"),
    "grin_core::pow::siphash::siphash_block|IndexMut::index_mut": (1, "index < SIPHASH_BLOCK_SIZE"),
    "grin_core::pow::cuckatoo::Graph::reset|Vec::with_capacity": (1, "sized by the proof size (chain constant)"),
    "grin_core::pow::cuckatoo::Graph::reset|vec::from_elem": (1, "sized by the proof size (chain constant)"),
    "grin_core::pow::cuckatoo::CuckatooContext::verify_impl|Index::index": (18, POW),
    "grin_core::pow::cuckatoo::CuckatooContext::verify_impl|IndexMut::index_mut": (8, POW),
    "grin_core::pow::cuckatoo::CuckatooContext::verify_impl|vec::from_elem": (4, POWA),
}
for ctxname, n_i, n_m, n_a in (("cuckaroo::CuckarooContext", 15, 8, 4), ("cuckarood::CuckaroodContext", 16, 7, 4), ("cuckaroom::CuckaroomContext", 13, 5, 5),
                               ("cuckarooz::CuckaroozContext", 14, 7, 3)):
    f = "<grin_core::pow::%s as grin_core::pow::types::PoWContext>::verify" % ctxname
    ALLOW[f + "|Index::index"] = (n_i, POW)
    ALLOW[f + "|IndexMut::index_mut"] = (n_m, POW)
    ALLOW[f + "|vec::from_elem"] = (n_a, POWA)

FORBID = {"panic": r4.PANIC_CALL, "alloc": r4.ALLOC_CALL}
P2P_ROOTS = r"re:codec::decode_message$|codec::Codec::read_inner$|msg::read_message$|msg::read_header$|msg::read_body$|msg::read_discard$"
CORE_ROOTS = (r"re:MerkleProof::from_hex$|merkle_proof::MerkleProof as .*Readable>::read$|Transaction::validate_read$|TransactionBody::validate_read$|"
              r"block::Block::validate_read$|CompactBlock::validate_read$|segment::Segment::(validate|validate_with|root|first_unpruned_parent)$|"
              r"SegmentProof::(validate|validate_with|reconstruct_root)$")
CHAIN_ROOTS = r"re:desegmenter::Desegmenter::add_\w+_segment$|bitmap_accumulator::<impl core::convert::From<.*BitmapSegment> for .*>::from$|BitmapSegment::into_segment$"

SER = "grin_core::ser::"


def run(c):
    import r9
    c.r9("C11")
    c.r4("decoders-p2p", "grin_p2p", P2P_ROOTS, FORBID, ALLOW, floor_roots=6, floor_reach=300, auto=r4.auto_discharge,
         desc="p2p codec / message decoders: no unjustified panic-capable construct or wire-sized allocation reachable")
    c.r4("decoders-core", "grin_core", CORE_ROOTS, FORBID, ALLOW, floor_roots=8, floor_reach=40, auto=r4.auto_discharge,
         desc="Merkle-proof decoders, read-time validators and stateless segment validation: no unjustified panic/alloc reachable")
    c.r4("decoders-chain", "grin_chain", CHAIN_ROOTS, FORBID, ALLOW, floor_roots=6, floor_reach=150, auto=r4.auto_discharge,
         desc="segment intake (Desegmenter::add_*_segment, bitmap segment conversion): no unjustified panic/alloc reachable")
    # --- guards that the hand justifications rely on
    BR = "<grin_core::ser::BufReader<'a, B> as grin_core::ser::Reader>::"
    for m, g in (("read_u8", "get_u8"), ("read_u16", "get_u16"), ("read_u32", "get_u32"), ("read_u64", "get_u64"), ("read_i32", "get_i32"),
                 ("read_i64", "get_i64"), ("read_fixed_bytes", "copy_to_slice")):
        c.r1("buf-%s-guarded" % m, BR + m, "grin_core::ser::BufReader::has_remaining", sink="re:bytes::buf::buf_impl::Buf::%s$" % g, via=2,
             desc="BufReader::%s: has_remaining(..) succeeds before the panicking bytes::Buf getter" % m)
    c.r1("buf-fixed-alloc-guarded", BR + "read_fixed_bytes", "grin_core::ser::BufReader::has_remaining", sink="re:alloc::vec::from_elem$", via=2)
    c.r2("has-remaining", "grin_core::ser::BufReader::has_remaining", ops={"Ge"}, lhs=["call:Buf::remaining"], rhs=["arg1"], fail_on=False,
         desc="has_remaining: Ok only if inner.remaining() >= len")
    c.r2("fixed-bytes-cap-bin", "<grin_core::ser::BinReader<'a, R> as grin_core::ser::Reader>::read_fixed_bytes", ops={"Gt"}, lhs=["arg1"], rhs=["const:100000"],
         err="TooLargeReadErr", sink="re:alloc::vec::from_elem$")
    c.r2("locator-cap", "<grin_p2p::msg::Locator as grin_core::ser::Readable>::read", ops={"Gt"}, lhs=["call:Reader::read_u8"], rhs=["re:^item:types::MAX_LOCATORS="],
         err="TooLargeReadErr", sink="re:alloc::vec::Vec::with_capacity$", sink_optional=True)
    c.r2("peer-addrs-cap", "<grin_p2p::msg::PeerAddrs as grin_core::ser::Readable>::read", ops={"Gt"}, lhs=["call:Reader::read_u32"], rhs=["re:^item:types::MAX_PEER_ADDRS="],
         err="TooLargeReadErr", sink="re:alloc::vec::Vec::with_capacity$", sink_optional=True)
    BB = "<grin_chain::txhashset::bitmap_accumulator::BitmapBlock as grin_core::ser::Readable>::read"
    c.r2("bitmap-block-pos", BB, ops={"Ge"}, lhs=["call:Reader::read_u16"], rhs=["call:Reader::read_u8", "op:MulWithOverflow", "re:^item:BitmapChunk::LEN_BITS="], err="CorruptedData", sink="re:bit_vec::BitVec::set$", min_guards=2)
    c.r2("bitmap-block-chunks", BB, ops={"Gt"}, lhs=["call:Reader::read_u8"], rhs=["re:^item:.*NCHUNKS="], err="TooLargeReadErr", sink="re:bit_vec::BitVec::from_elem$")
    BS = "<grin_chain::txhashset::bitmap_accumulator::BitmapSegment as grin_core::ser::Readable>::read"
    c.r2("bitmap-seg-blocks", BS, ops={"Gt"}, lhs=["call:Reader::read_u16"], rhs=["call:BitmapSegment::max_chunks", "op:AddWithOverflow", "op:SubWithOverflow", "op:Div"], err="TooLargeReadErr", sink="re:alloc::vec::Vec::with_capacity$", sink_optional=True)
    c.r2("bitmap-seg-height", "grin_chain::txhashset::bitmap_accumulator::BitmapSegment::max_chunks", ops={"Gt"}, lhs=["arg0.height"], rhs=["re:^item:.*MAX_SEGMENT_HEIGHT="],
         err="TooLargeReadErr")
    c.r2("bitmap-seg-chunks", "grin_chain::txhashset::bitmap_accumulator::BitmapSegment::validate_blocks", ops={"Gt"}, lhs=["call:BitmapSegment::n_chunks"], rhs=["call:BitmapSegment::max_chunks"],
         err="TooLargeReadErr")
    c.r1("into-segment-validates", "grin_chain::txhashset::bitmap_accumulator::BitmapSegment::into_segment", "grin_chain::txhashset::bitmap_accumulator::BitmapSegment::validate_blocks",
         sink="re:alloc::vec::Vec::with_capacity$", via=2)
    c.r1("bitmap-read-validates", BS, "grin_chain::txhashset::bitmap_accumulator::BitmapSegment::validate_blocks", via=2)
    c.r2("segment-positions-sorted", "grin_core::core::pmmr::segment::read_segment_positions", ops={"Le"}, lhs=["call:Reader::read_u64"], err="SortError", dominate=False)
    SR = "grin_core::core::pmmr::segment::Segment::root"
    c.r2("segment-root-height", SR, ops={"Ge"}, lhs=["arg0.identifier.height"], rhs=["const:64"], err="NonExistent", sink="re:core::option::Option::unwrap$",
         bypass=[], desc="Segment::root: identifier.height >= 64 is refused before any position arithmetic or unwrap")
    c.r2("segment-root-nonempty", SR, ops={"Eq"}, lhs=["call:Segment::segment_unpruned_size"], rhs=["const:0"], err="NonExistent", sink="re:core::option::Option::unwrap$",
         bypass=[(r"^Ge\(arg0\.identifier\.height, 64\)$", "true")], desc="Segment::root: an identifier whose leaf offset lies beyond the MMR is refused before any unwrap")
    # constant / clamped lengths behind the hand justifications of the fixed-size copies
    c.r2_arg("rangeproof-len", "<secp256k1zkp::pedersen::RangeProof as grin_core::ser::Readable>::read", "grin_core::ser::Reader::read_fixed_bytes", 1,
             must=["call:cmp::min", "call:Reader::read_u64", "re:^item:.*MAX_PROOF_SIZE"], desc="RangeProof::read clamps the wire length to MAX_PROOF_SIZE before copying into the fixed array")
    c.r2_arg("hash-len", "<grin_core::core::hash::Hash as grin_core::ser::Readable>::read", "grin_core::ser::Reader::read_fixed_bytes", 1, must=["re:^item:.*LEN="] , text=r"^const:|^\d+$") if False else \
        c.r2_arg("hash-len", "<grin_core::core::hash::Hash as grin_core::ser::Readable>::read", "grin_core::ser::Reader::read_fixed_bytes", 1, text=r"^(const:\S+=32|32)$",
                 desc="Hash::read reads exactly 32 bytes before copy_from_slice into [u8; 32]")
    c.r2_arg("commitment-len", "<secp256k1zkp::pedersen::Commitment as grin_core::ser::Readable>::read", "grin_core::ser::Reader::read_fixed_bytes", 1, text=r"^(const:\S*PEDERSEN_COMMITMENT_SIZE=33|33)$")
    c.r2_arg("signature-len", "<secp256k1zkp::Signature as grin_core::ser::Readable>::read", "grin_core::ser::Reader::read_fixed_bytes", 1, text=r"^(const:\S*AGG_SIGNATURE_SIZE=64|64)$")
    c.r2_arg("shortid-len", "<grin_core::core::id::ShortId as grin_core::ser::Readable>::read", "grin_core::ser::Reader::read_fixed_bytes", 1, text=r"^(const:\S*SHORT_ID_SIZE=6|6)$")
    c.r2_arg("peer-addr-v4-len", "<grin_p2p::types::PeerAddr as grin_core::ser::Readable>::read", "grin_core::ser::Reader::read_fixed_bytes", 1, text=r"^4$")
    c.r2_arg("body-alloc-len", "grin_p2p::msg::read_body", "re:alloc::vec::from_elem$", 1, must=["arg0.msg_len"])
    c.r2("segment-item-count", "grin_core::core::pmmr::segment::read_segment_item_count", ops={"Gt"}, lhs=["call:Reader::read_u64"], rhs=["re:^item:.*MAX_SEGMENT_READ_ITEMS="],
         err="TooLargeReadErr")
    # --- limit before body
    MH = "<grin_p2p::msg::MsgHeaderWrapper as grin_core::ser::Readable>::read"
    c.r2("msg-limit-known", MH, ops={"Gt"}, lhs=["call:Reader::read_u64"], rhs=["call:msg::max_msg_size", "op:MulWithOverflow", "const:4"], err="TooLargeReadErr", dominate=False,
         desc="MsgHeaderWrapper::read: msg_len above the per-type limit is refused")
    c.r2("msg-limit-unknown", MH, ops={"Gt"}, lhs=["call:Reader::read_u64"], rhs=["re:^call:msg::(default_max_msg_size|max_block_size)$", "op:MulWithOverflow", "const:4"], err="TooLargeReadErr", dominate=False,
         desc="MsgHeaderWrapper::read: msg_len of an unknown type above the default limit is refused")
    c.r2("msg-limit-dominates", MH, ops={"Gt"}, lhs=["call:Reader::read_u64"], rhs=["re:^call:msg::(default_max_msg_size|max_msg_size|max_block_size)$", "op:MulWithOverflow", "const:4"], err="TooLargeReadErr", min_guards=2,
         desc="MsgHeaderWrapper::read: every ok exit passed the false edge of a `msg_len > limit` comparison")
    # a workspace iterator that reports a size hint makes `collect()` pre-allocate from it: on the decoder paths the element count comes off
    # the wire (read_multi: up to 1_000_000), so no workspace `size_hint`/`len` override may be reachable (positive control: the walk passes
    # through Iterator::collect into IteratingReader::next)
    c.r4_fn("no-wire-size-hint", "grin_p2p", P2P_ROOTS, r"re:^<grin.* as core::iter::traits::(iterator::Iterator>::size_hint|exact_size::ExactSizeIterator>::len)$", floor_roots=6,
            control=r"re:^<grin_core::ser::IteratingReader<.*> as core::iter::traits::iterator::Iterator>::next$",
            desc="no workspace Iterator::size_hint / ExactSizeIterator::len is reachable from the p2p decoders (collect() must not pre-allocate from a wire count)")
    c.r4_fn("no-wire-size-hint-core", "grin_core", CORE_ROOTS, r"re:^<grin.* as core::iter::traits::(iterator::Iterator>::size_hint|exact_size::ExactSizeIterator>::len)$", floor_roots=8,
            desc="no workspace Iterator::size_hint / ExactSizeIterator::len is reachable from the core decoders and read-time validators")
    # `impl Readable for Vec<T>` (unbounded) must not be reachable from the decoders
    c.r4("no-unbounded-vec-read", "grin_p2p", P2P_ROOTS, {"unbounded": __import__("re").compile(r"^<alloc::vec::Vec<T> as grin_core::ser::Readable>::read$")}, {},
         floor_roots=6, floor_reach=300, asserts=(), desc="the unbounded `impl Readable for Vec<T>` is not reachable from the p2p decoders")


def RELEASE_RULES(c):
    """Thorough tier: the same reachability rules on facts extracted with -C overflow-checks=off -C debug-assertions=off
    (the arithmetic the property fixes); also reports how many MIR asserts the release build keeps."""
    c.r4("decoders-p2p", "grin_p2p", P2P_ROOTS, FORBID, ALLOW, floor_roots=6, floor_reach=300, auto=r4.auto_discharge,
         asserts=r4.ASSERT_KINDS + ("Overflow(Add)", "Overflow(Sub)", "Overflow(Mul)", "Overflow(Shl)", "Overflow(Shr)", "OverflowNeg"),
         desc="release semantics: no unjustified panic/alloc (nor any remaining overflow assert) reachable from the p2p decoders")
    c.r4("decoders-core", "grin_core", CORE_ROOTS, FORBID, ALLOW, floor_roots=8, floor_reach=40, auto=r4.auto_discharge,
         asserts=r4.ASSERT_KINDS + ("Overflow(Add)", "Overflow(Sub)", "Overflow(Mul)", "Overflow(Shl)", "Overflow(Shr)", "OverflowNeg"),
         desc="release semantics: Merkle-proof decoders, read-time validators, segment validation")
    c.r4("decoders-chain", "grin_chain", CHAIN_ROOTS, FORBID, ALLOW, floor_roots=6, floor_reach=150, auto=r4.auto_discharge,
         asserts=r4.ASSERT_KINDS + ("Overflow(Add)", "Overflow(Sub)", "Overflow(Mul)", "Overflow(Shl)", "Overflow(Shr)", "OverflowNeg"),
         desc="release semantics: segment intake")

