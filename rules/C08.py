"""C08 — pruning, compaction, rewind and reopen (narrow): step sequencing and pairing."""
CLAUSE = ("compaction performs its steps in the order positions-to-remove -> pruned hash copy -> pruned data copy -> replace hash file -> replace "
          "data file -> prune-list rebuild and flush -> leaf-set flush; backend sync flushes hash file, data file, leaf set and prune list; backend "
          "rewind rewinds leaf set, hash file and data file; the output and range-proof MMRs are compacted with the same cutoff (the horizon "
          "header's output MMR size) and the same rewind bitmap; chain compaction picks the horizon from the head height minus the cut-through "
          "horizon, rebuilds the position index and commits afterwards; backend reads hide leaves that are not in the leaf set; all MMR views "
          "are bounded by the size they were opened at.")
NOT_DECIDED = "shift / position arithmetic of the prune list, equality of a compacted MMR with an unpruned reference, hash values."

S = "grin_store::"
PB = S + "pmmr::PMMRBackend::"
BI = "<grin_store::pmmr::PMMRBackend<T> as grin_core::core::pmmr::backend::Backend<T>>::"
DF = S + "types::DataFile::"
X = "grin_chain::txhashset::txhashset::"
CH = "grin_chain::chain::Chain::"


def run(c):
    import r9
    c.r9("C08")
    CC = PB + "check_compact"
    steps = [
        (PB + "pos_to_rm", None),
        (DF + "write_tmp_pruned", r"^arg0\.hash_file"),
        (DF + "write_tmp_pruned", r"^arg0\.data_file"),
        (DF + "replace_with_tmp", r"^arg0\.hash_file"),
        (DF + "replace_with_tmp", r"^arg0\.data_file"),
        (S + "prune_list::PruneList::flush", None),
        (S + "leaf_set::LeafSet::flush", None),
    ]
    for i, (fn, where) in enumerate(steps):
        c.r1("compact-step-%d" % (i + 1), CC, fn, require_where=where, via=2, desc="check_compact: ok => step %d (%s%s)" % (i + 1, fn.split("::")[-1], " on " + where if where else ""))
        if i > 0:
            pf, pw = steps[i - 1]
            c.r1("compact-order-%d" % i, CC, pf, require_where=pw, sink=fn, sink_where=where, via=2,
                 desc="check_compact: step %d (%s) precedes step %d (%s)" % (i, pf.split("::")[-1], i + 1, fn.split("::")[-1]))
    c.r2_arg("compact-prune-list-union", CC, "re:croaring::bitmap::.*or_inplace$", 1, must=["call:PMMRBackend::pos_to_rm"],
             desc="check_compact: the new prune list is the old one united with the leaves removed by this compaction")
    SY = PB + "sync"
    c.r1("sync-hash", SY, DF + "flush", require_where=r"^arg0\.hash_file", sink="return", via=2, called_only=True)
    c.r1("sync-data", SY, DF + "flush", require_where=r"^arg0\.data_file", sink="return", via=2, called_only=True)
    c.r1("sync-leafset", SY, PB + "sync_leaf_set", sink="return", via=2, called_only=True)
    c.r1("sync-prune-list", SY, S + "prune_list::PruneList::flush", sink="return", via=2, called_only=True)
    c.r2_ret("sync-combines-all", SY, must=["call:DataFile::flush", "call:PMMRBackend::sync_leaf_set", "call:PruneList::flush", "call:Result::and"],
             desc="PMMRBackend::sync returns the conjunction of all four flush results")
    RW = BI + "rewind"
    c.r1("rewind-leafset", RW, S + "leaf_set::LeafSet::rewind", sink="return", via=2, called_only=True, extra_cuts=c.false_edges(RW, r"^arg0\.prunable$"),
         desc="Backend::rewind: a prunable backend rewinds its leaf set")
    c.r1("rewind-hash", RW, DF + "rewind", require_where=r"^arg0\.hash_file", sink="return", via=2, called_only=True)
    c.r1("rewind-data", RW, DF + "rewind", require_where=r"^arg0\.data_file", sink="return", via=2, called_only=True)
    c.r2_arg("rewind-leafset-args", RW, S + "leaf_set::LeafSet::rewind", 2, must=["arg2"])
    # --- pairing of output and rangeproof MMRs
    TC = X + "TxHashSet::compact"
    c.r1("compact-output", TC, PB + "check_compact", require_where=r"^arg0\.output_pmmr_h\.backend, arg1\.output_mmr_size, txhashset::input_pos_to_rewind\(", via=2)
    c.r1("compact-rproof", TC, PB + "check_compact", require_where=r"^arg0\.rproof_pmmr_h\.backend, arg1\.output_mmr_size, txhashset::input_pos_to_rewind\(", via=2)
    c.r2_arg("compact-same-cutoff", TC, PB + "check_compact", 1, must=["arg1.output_mmr_size"], floor=2)
    c.r2_arg("compact-same-rewind-bitmap", TC, PB + "check_compact", 2, must=["call:txhashset::input_pos_to_rewind", "arg1"], floor=2)
    c.r3("check_compact-callers", PB + "check_compact", {TC}, floor_sites=2)
    CO = CH + "compact"
    c.r1("chain-compact-order", CO, TC, sink=X + "TxHashSet::init_output_pos_index", via=2)
    c.r1("chain-compact-commit-last", CO, X + "TxHashSet::init_output_pos_index", sink="grin_chain::store::Batch::commit", via=2)
    c.r2_arg("chain-compact-horizon", CO, X + "PMMRHandle::get_header_hash_by_height", 1, must=["call:num::saturating_sub", "call:global::cut_through_horizon", "call:Batch::head_header"])
    c.r2_arg("chain-compact-horizon-header", CO, TC, 1, must=["call:Batch::get_block_header", "call:PMMRHandle::get_header_hash_by_height"])
    c.r3("txhashset-compact-callers", TC, {CO}, floor_sites=1)
    # --- backend reads hide removed leaves
    c.r2_edge("get-data-leafset", BI + "get_data", [(r"^LeafSet::includes\(arg0\.leaf_set, arg1\)$", "true"), (r"^arg0\.prunable$", "false")], "re:::get_data_from_file$",
              desc="Backend::get_data: a prunable backend returns data only for positions in the leaf set")
    c.r2_edge("get-data-leaves-only", BI + "get_data", [(r"^pmmr::is_leaf\(arg1\)$", "true")], "re:::get_data_from_file$")
    c.r2_edge("get-hash-leafset", BI + "get_hash", [(r"^LeafSet::includes\(arg0\.leaf_set, arg1\)$", "true"), (r"^arg0\.prunable$", "false"), (r"^pmmr::is_leaf\(arg1\)$", "false")],
              "re:::get_from_file$", desc="Backend::get_hash: a pruned leaf of a prunable backend has no hash")
    # --- view bound (shared with C02)
    n = 0
    for impl in ("grin_core::core::pmmr::pmmr::PMMR<'a, T, B>", "grin_core::core::pmmr::readonly_pmmr::ReadonlyPMMR<'a, T, B>"):
        for m in ("get_hash", "get_data", "get_from_file", "get_peak_from_file", "get_data_from_file"):
            n += 1
            c.r2("view-bound-%d" % n, "<%s as grin_core::core::pmmr::pmmr::ReadablePMMR>::%s" % (impl, m), ops={"Ge"}, lhs=["arg1"], rhs=["arg0.size"],
                 fail_on=True, sink="re:pmmr::backend::Backend::get_\\w+$", desc="%s::%s refuses pos >= size before touching the backend" % (impl.split("::")[-1], m))
    c.r2_arg("rewindable-delegates", "re:^<grin_core::core::pmmr::rewindable_pmmr::RewindablePMMR<'a, T, B>.*ReadablePMMR>::get_data$|rewindable_pmmr::RewindablePMMR.*::get_data$" if False else
             "grin_core::core::pmmr::rewindable_pmmr::RewindablePMMR::rewind", "re:dummy", 0) if False else None
