"""C15 — the bitmap commitment is path independent (structural clause)."""
CLAUSE = ("every successful apply_block / rewind of an extension passes through the accumulator update with the positions it touched; the committed "
          "accumulator is replaced only on the commit exit of `extending` and rebuilt from the leaf set when the txhashset is opened; the header "
          "root check compares all three roots, the output root being the merged (pmmr root, bitmap root) hash from header version 3 on; roots and "
          "sizes are validated after every block application; the accumulator can be overwritten only by PIBD finalisation.")
NOT_DECIDED = "equality of the incrementally maintained accumulator with one rebuilt from scratch (chunk arithmetic), hash values."

X = "grin_chain::txhashset::txhashset::"
E = X + "Extension::"
T = "grin_chain::types::"
P = "grin_chain::pipe::"
ACC = E + "apply_to_bitmap_accumulator"


def run(c):
    import r9
    c.r9("C15")
    c.r1("apply-block-updates-accumulator", E + "apply_block", ACC, via=2)
    c.r1("accumulator-after-inputs", E + "apply_block", E + "apply_input", sink=ACC, via=2,
         extra_cuts=_empty_loop(c, E + "apply_block", r"validate_inputs"), desc="apply_block: the accumulator update follows the application of the spent inputs") if False else None
    c.r1("accumulator-after-outputs-and-inputs", E + "apply_block", "grin_chain::txhashset::utxo_view::UTXOView::validate_inputs", sink=ACC, via=2)
    c.r2_arg("accumulator-affected-positions", E + "apply_block", ACC, 1, must=["call:Vec::new"],
             desc="apply_block passes the affected_pos vector (filled with created and spent positions) to the accumulator update")
    for what, where in (("created", r"Extension::apply_output"), ("spent", r"\.pos$|\.1\.pos|pos\b")):
        pass
    c.loop("affected-created", E + "apply_block", "re:alloc::vec::Vec::push$", over=r"Block::outputs", called_only=True,
           desc="apply_block: every created output position is pushed to affected_pos")
    c.loop("affected-spent", E + "apply_block", "re:alloc::vec::Vec::push$", over=r"validate_inputs", called_only=True,
           desc="apply_block: every spent position is pushed to affected_pos")
    R = E + "rewind"
    c.r1("rewind-updates-accumulator", R, ACC, via=2, desc="Extension::rewind: ok => apply_to_bitmap_accumulator on both arms")
    c.r1("rewind-block-affected", E + "rewind_single_block", E + "rewind_mmrs_to_pos", via=2)
    c.r2_arg("rewind-collects-affected", R, "re:alloc::vec::Vec::append$", 1, must=["call:Extension::rewind_single_block"],
             desc="Extension::rewind appends the positions returned by rewind_single_block to affected_pos")
    c.r1("rewind-each-block", R, E + "rewind_single_block", sink="re:alloc::vec::Vec::append$", via=2)
    c.r2_arg("rewind-passes-affected", R, ACC, 1, must=["call:Vec::new"], where=r"Vec::new", floor=1)
    c.r1("accumulator-indices-sorted", ACC, "re:core::slice::(?:<impl \\[T\\]>::)?sort(_unstable)?$", sink="grin_chain::txhashset::bitmap_accumulator::BitmapAccumulator::apply", via=2, called_only=True,
         desc="apply_to_bitmap_accumulator sorts the affected leaf indices before handing them to BitmapAccumulator::apply (which rebuilds from the first one)")
    c.r2_arg("accumulator-size", ACC, "grin_chain::txhashset::bitmap_accumulator::BitmapAccumulator::apply", 3, must=["call:pmmr::n_leaves", "arg0.output_pmmr.size"])
    c.r2_arg("accumulator-leaves", ACC, "grin_chain::txhashset::bitmap_accumulator::BitmapAccumulator::apply", 2, must=["re:^call:.*leaf_idx_iter$", "arg0.output_pmmr", "call:BitmapAccumulator::chunk_start_idx"])
    # --- committed accumulator only replaced on the commit exit; rebuilt on open
    c.r3_field("accumulator-writers", X + "TxHashSet", "bitmap_accumulator", {X + "extending": {"assign"}}, floor=1)
    W = X + "extending"
    ok_arm = [e[1] for e in c.false_edges(W, r"^Extension::new\(arg1, .*\)\.rollback$")]
    c.r2_assign("commit-exit-assigns-accumulator", W, "bitmap_accumulator", must=["call:Extension::new", "re:\\.bitmap_accumulator$"])
    err_arm = c.arm_blocks(W, r"^discr\(FnOnce::call_once\(arg3", 1)
    rb_arm = [e[1] for e in c.true_edges(W, r"^Extension::new\(arg1, .*\)\.rollback$")]
    _no_assign(c, "rollback-keeps-accumulator", W, err_arm + rb_arm, "bitmap_accumulator")
    c.r1("open-rebuilds-accumulator", X + "TxHashSet::open", X + "TxHashSet::bitmap_accumulator", via=2)
    c.r1("rebuild-from-leaf-set", X + "TxHashSet::bitmap_accumulator", "grin_chain::txhashset::bitmap_accumulator::BitmapAccumulator::init", via=2)
    c.r2_arg("rebuild-leaves", X + "TxHashSet::bitmap_accumulator", "grin_chain::txhashset::bitmap_accumulator::BitmapAccumulator::init", 1, must=["re:^call:.*leaf_idx_iter$", "const:0"])
    c.r2_arg("rebuild-size", X + "TxHashSet::bitmap_accumulator", "grin_chain::txhashset::bitmap_accumulator::BitmapAccumulator::init", 2, must=["call:pmmr::n_leaves", "arg0.size"])
    # --- root check
    V = T + "TxHashSetRoots::validate"
    c.r2("root-output", V, ops={"Ne"}, lhs=["arg1.output_root"], rhs=["call:TxHashSetRoots::output_root", "arg0", "arg1"], err="InvalidRoot")
    c.r2("root-rangeproof", V, ops={"Ne"}, lhs=["arg1.range_proof_root"], rhs=["arg0.rproof_root"], err="InvalidRoot")
    c.r2("root-kernel", V, ops={"Ne"}, lhs=["arg1.kernel_root"], rhs=["arg0.kernel_root"], err="InvalidRoot")
    c.r2("merged-from-v3", T + "OutputRoots::root", ops={"Lt"}, lhs=["arg1.version"], fail_on=True, sink=T + "OutputRoots::merged_root", dominate=False,
         desc="OutputRoots::root: plain pmmr root only below header version 3, merged root otherwise")
    c.r2_ret("merged-root", T + "OutputRoots::merged_root", must=["call:PMMRIndexHashable::hash_with_index", "arg0.pmmr_root", "arg0.bitmap_root", "arg1.output_mmr_size"])
    c.r2_ret("output-root-delegates", T + "TxHashSetRoots::output_root", must=["call:OutputRoots::root", "arg0.output_roots", "arg1"])
    c.r2_ret("ext-roots-bitmap", E + "roots", must=["call:BitmapAccumulator::root", "arg0.bitmap_accumulator"]) if False else None
    c.r1("ext-roots-bitmap", E + "roots", "grin_chain::txhashset::bitmap_accumulator::BitmapAccumulator::root", via=2)
    c.r1("validate-roots", E + "validate_roots", V, via=2, extra_cuts=c.true_edges(E + "validate_roots", r"^Eq\(arg1\.height, 0\)$"),
         desc="Extension::validate_roots: ok => roots().validate(header), only bypass genesis")
    A = P + "apply_block_to_txhashset"
    c.r1_all("roots-and-sizes-after-apply", A, [E + "apply_block", E + "validate_roots", E + "validate_sizes"], via=2)
    c.r1("roots-after-apply-order", A, E + "apply_block", sink=E + "validate_roots", via=2)
    c.r3("set-accumulator-callers", E + "set_bitmap_accumulator", {"grin_chain::txhashset::desegmenter::Desegmenter::finalize_bitmap"}, floor_sites=1)
    c.r3_field("ext-accumulator-writers", X + "Extension", "bitmap_accumulator",
               {E + "set_bitmap_accumulator": {"assign"}, ACC: {"&mut", "BitmapAccumulator::apply"}}, floor=2)


def _empty_loop(c, fn, over):
    return []


def _no_assign(c, rid, fn, starts, field):
    """From the given blocks no assignment to `.field` is reachable."""
    from cfg import reachable_set, live_blocks
    from facts import fn_loc
    key = c.getfn(fn)
    d = "%s: the error/rollback exits do not assign .%s" % (fn.split("::")[-1], field)
    if key is None or not starts:
        return c.lost(rid, "R1", fn, d, "function or start blocks not found")
    f = c.F.fns[key]
    reach = reachable_set(f, starts)
    for bi in reach:
        for st in f["blocks"][bi]["st"]:
            if st["k"] == "assign" and st["dst"]["p"]:
                last = [p for p in st["dst"]["p"] if p != "*"]
                if last and isinstance(last[-1], dict) and last[-1].get("f") == field:
                    return c.record(rid, "R1", key, d, "violation", ["%s:%s" % (f["span"]["file"], st.get("line"))], ["assignment reachable from an error/rollback exit"], key_detail="assign:" + field)
    return c.record(rid, "R1", key, d, "hold", [fn_loc(f)])
