"""C17 — concurrency: lock order, re-entrancy, callbacks, committed-only reads."""
import collections
import r5
from facts import short, loc, callee_names
from rules import cg_reach, pat

CLAUSE = ("the lock-acquisition order graph over all lock classes of chain/store/pool/p2p/servers/api (including the LMDB write transaction as a "
          "pseudo lock and locks acquired transitively through callees, closures and trait objects) is acyclic and embeds in the hierarchy header "
          "MMR -> txhashset -> LMDB write txn; no function acquires a lock class it (or its caller chain within the function) already holds; the "
          "chain adapter callback is invoked with no chain lock and no write transaction held; the Chain read API reaches LMDB only through fresh "
          "read transactions, never through a write batch; block and head are written in one batch with a single commit.")
NOT_DECIDED = "linearizability / monotonicity of the head as observed by concurrent readers (needs executions); fairness; locks inside third-party crates."

CRATES = ["grin_chain", "grin_store", "grin_servers", "grin_pool", "grin_p2p", "grin_api"]
H, T, W = "HeaderPMMR", "TxHashSet", "LMDB_W"
HIERARCHY = [H, T, W]
CH = "grin_chain::chain::Chain::"
READ_API = ["head", "tail", "header_head", "head_header", "get_block", "get_block_header", "get_previous_header", "get_block_sums", "block_exists",
            "get_header_for_output", "get_output_pos", "is_known", "get_tail", "difficulty_iter", "orphans_len", "is_orphan"]


def run(c):
    import r9
    c.r9("C17")
    LA = r5.LockAnalysis(c, CRATES)
    edges, reent = LA.order_edges()
    c.stats["lock_classes"] = len(LA.acq_sites)
    c.stats["lock_acquisition_sites"] = sum(len(v) for v in LA.acq_sites.values())
    c.stats["lock_order_edges"] = len(edges)
    c.stats["functions_with_locks"] = sum(1 for v in LA.info.values() if v)
    c.fn_seen.update(k for k, v in LA.info.items() if v)
    # --- anti-vacuity: the classes and nestings confirmed by hand are found
    fl = {cls: len(s) for cls, s in LA.acq_sites.items()}
    need = {T: 40, H: 30, W: 25, "OrphanBlockPool.orphans": 3, "Chain.denylist": 3, "SyncState.current": 5}
    missing = {k: (fl.get(k, 0), v) for k, v in need.items() if fl.get(k, 0) < v}
    nest = {(H, T): 20, (H, W): 20, (T, W): 18, ("OrphanBlockPool.orphans", "OrphanBlockPool.height_idx"): 1}
    nmiss = {k: (len({x[0] for x in edges.get(k, [])}), v) for k, v in nest.items() if len({x[0] for x in edges.get(k, [])}) < v}
    d = "lock inventory: %d classes, %d acquisition sites, %d ordered pairs" % (len(fl), sum(fl.values()), len(edges))
    if missing or nmiss:
        c.record("inventory", "R5", None, d, "anchor-lost", [], ["acquisition floors not met: %s; nesting floors not met: %s" % (missing, nmiss)], key_detail="anchor-lost")
    else:
        c.record("inventory", "R5", None, d, "hold", ["%s: %d sites" % (k, v) for k, v in sorted(fl.items(), key=lambda x: -x[1])[:8]])
    # --- acyclic
    cyc = r5.find_cycle(edges)
    d = "the lock acquisition order graph is acyclic"
    if cyc:
        wit = []
        for a, b in zip(cyc, cyc[1:]):
            k, l, via = edges[(a, b)][0]
            wit.append("%s -> %s in %s @ %s (%s)" % (a, b, k, l, via))
        c.record("acyclic", "R5", edges[(cyc[0], cyc[1])][0][0], d, "violation", [edges[(cyc[0], cyc[1])][0][1]], ["cycle: " + " -> ".join(cyc)] + wit,
                 key_detail="cycle:" + ">".join(sorted(set(cyc))))
    else:
        c.record("acyclic", "R5", None, d + " (%d ordered pairs)" % len(edges), "hold", ["%s -> %s (%d fns)" % (a, b, len({x[0] for x in l})) for (a, b), l in sorted(edges.items(), key=lambda x: -len(x[1]))[:8]])
    # --- hierarchy H -> T -> W
    ok = True
    for i, a in enumerate(HIERARCHY):
        for b in HIERARCHY[:i]:
            for (k, l, via) in edges.get((a, b), []):
                ok = False
                c.record("hierarchy", "R5", k, "chain locks are taken in the order header MMR -> txhashset -> LMDB write txn", "violation", [l],
                         ["%s acquires %s while holding %s (%s)" % (k, b, a, via)], key_detail="%s>%s" % (a, b))
    if ok:
        c.record("hierarchy", "R5", None, "chain locks are taken in the order header MMR -> txhashset -> LMDB write txn", "hold",
                 ["%s -> %s: %d functions" % (a, b, len({x[0] for x in edges.get((a, b), [])})) for a, b in ((H, T), (H, W), (T, W))])
    # --- re-entrancy
    if reent:
        for (k, l, cls, via) in sorted(set(reent)):
            c.record("no-reentrancy", "R5", k, "no lock class is acquired while already held (parking_lot locks are not re-entrant)", "violation", [l],
                     ["%s acquires %s again while holding it (%s)" % (k, cls, via)], key_detail="reent:" + cls)
    else:
        c.record("no-reentrancy", "R5", None, "no lock class is acquired while already held (parking_lot locks are not re-entrant; a recursive read can deadlock behind a queued writer)", "hold", [])
    # --- callbacks under locks
    n = 0
    bad = 0
    for k in LA.fns:
        if not k.startswith("grin_chain::"):
            continue
        for bi, t in c.F.calls(k):
            if any(x.startswith("grin_chain::types::ChainAdapter::") for x in callee_names(t)):
                n += 1
                held = LA.held_at(k, bi)
                if held:
                    bad += 1
                    c.record("callback-unlocked", "R5", k, "ChainAdapter callbacks are invoked with no lock and no write transaction held", "violation", [loc(t)],
                             ["%s calls %s while holding %s" % (k, short(callee_names(t)[0], 2), sorted(held))], key_detail="callback")
    if n < 1:
        c.lost("callback-unlocked", "R5", None, "ChainAdapter callbacks are invoked with no lock and no write transaction held", "no adapter call found in grin_chain")
    elif not bad:
        c.record("callback-unlocked", "R5", None, "ChainAdapter callbacks are invoked with no lock and no write transaction held (%d call sites)" % n, "hold", [])
    # the pipeline itself runs under {H, T, W}
    k = CH + "process_block_single"
    if k in c.F.fns:
        for bi, t in c.F.calls(k):
            if any(x == "grin_chain::pipe::process_block" for x in callee_names(t)):
                held = LA.held_at(k, bi)
                v = "hold" if {H, T, W} <= held else "violation"
                c.record("pipeline-under-locks", "R5", k, "pipe::process_block runs with header MMR, txhashset and the write batch held", v, [loc(t)], ["held: %s" % sorted(held)], key_detail="pipeline")
    # --- committed-only reads
    roots = [CH + m for m in READ_API if CH + m in c.F.fns]
    d = "the Chain read API reaches LMDB only through fresh read transactions (never opens or reads through a write batch)"
    if len(roots) < 12:
        c.lost("committed-only-reads", "R3", None, d, "only %d read API functions found" % len(roots))
    else:
        c.fn_seen.update(roots)
        w = cg_reach(c, roots, pat("re:" + r5.BATCH_ACQ.pattern))
        if w:
            c.record("committed-only-reads", "R3", w[0][0], d, "violation", [w[-1][1]], ["call chain:"] + ["%s @ %s" % x for x in w], key_detail="read-via-batch")
        else:
            c.record("committed-only-reads", "R3", None, d + " (%d entry points)" % len(roots), "hold", [])
    # --- trusted base: user-written unsafe blocks are the frozen set (heed environment open/resize, memory maps)
    import collections as _c
    allowed = {"grin_store::lmdb::Store::new": 1, "grin_store::lmdb::Store::migrate_to_default_env": 2, "grin_store::lmdb::Store::maybe_resize": 2, "grin_store::types::AppendOnlyFile::init": 1, "grin_store::types::AppendOnlyFile::flush": 1}
    import re as _re
    fold = lambda k: _re.sub(r"(::\{closure#\d+\})+$", "", k)
    got = _c.Counter(fold(u["nfn"]) for u in c.F.unsafes)
    d = "user-written `unsafe` blocks in the workspace are the frozen set (LMDB environment open/resize, memmap); none touches chain state"
    extra = {k: n for k, n in got.items() if n > allowed.get(k, 0)}
    if extra:
        for k, n in sorted(extra.items()):
            locs = ["%s:%s" % (u["span"]["file"], u["span"]["lo"]) for u in c.F.unsafes if fold(u["nfn"]) == k]
            c.record("unsafe-inventory", "R3", k, d, "violation", locs, ["%s contains %d unsafe block(s), %d allowed" % (k, n, allowed.get(k, 0))], key_detail="unsafe")
    elif sum(got.values()) < 5:
        c.lost("unsafe-inventory", "R3", None, d, "only %d unsafe blocks seen (matcher lost?)" % sum(got.values()))
    else:
        c.record("unsafe-inventory", "R3", None, d + " (%d blocks)" % sum(got.values()), "hold", sorted(got))
    # --- head and block are written in the same batch, one commit
    c.r1("block-and-head-one-batch", "grin_chain::pipe::process_block", "grin_chain::pipe::add_block", sink="grin_chain::pipe::update_head", via=2)
    c.never("no-commit-inside-pipeline", "grin_chain::pipe::process_block", None, "re:store::Batch::commit$", desc="pipe::process_block never commits the outer batch itself")
    c.r3("commit-sites", "grin_chain::store::Batch::commit", _commit_callers(c), floor_sites=13)

    # --- type-level clauses (R8 compile-fail witnesses with compiling twins; `cargo check` only, nothing is executed)
    import witness
    witness.run(c, "C17")


def _commit_callers(c):
    # frozen set of functions that commit a chain batch
    CH2 = "grin_chain::chain::"
    DS = "grin_chain::txhashset::desegmenter::Desegmenter::"
    return {CH2 + "Chain::process_block_single", CH2 + "Chain::process_block_header", CH2 + "Chain::sync_block_headers", CH2 + "Chain::reset_chain_head",
            CH2 + "Chain::reset_chain_head_to_genesis", CH2 + "Chain::txhashset_write", CH2 + "Chain::compact", CH2 + "Chain::init", CH2 + "setup_head",
            "grin_chain::txhashset::txhashset::extending", "grin_chain::txhashset::txhashset::header_extending",
            DS + "validate_complete_state", DS + "check_progress"}
