"""C12 — aggregation, cut-through and compact-block hydration (narrow clause: construction dataflow of the aggregate / hydrated block)."""
CLAUSE = ("construction dataflow of aggregation and hydration: transaction::aggregate and Block::hydrate_from collect inputs, outputs and kernels of every "
          "transaction (one extend per collection per loop iteration), build the result only after cut_through succeeded and from the slices cut_through "
          "returned (not from the uncut vectors); the aggregate offset is sum_kernel_offsets over the collected offsets with an empty negative list; "
          "cut_through sorts both sides by commitment before the merge walk, re-sorts the four result slices and refuses duplicate inputs / outputs; "
          "hydrate_from adds the compact block's full outputs and kernels and keeps its header; deaggregate aggregates the known subset first and keeps "
          "only inputs / outputs / kernels the subset does not contain; From<Block> for CompactBlock keeps coinbase outputs / kernels in full, short ids for "
          "every other kernel keyed by (header hash, nonce), and initialises (sorts) the body; the confirmed structure (guards, call order, argument origins, "
          "constants) of the functions the property names is unchanged with respect to the reviewed tree.")
NOT_DECIDED = ("the value-level algebra: that the result's multisets are exactly union minus matched pairs for every operand order and grouping, that offsets sum "
               "correctly (libsecp), that de-aggregation returns the remainder, that hydration yields the identical block; short-id collisions.")
TECHNIQUE = ("static analysis: must-pass-through, per-iteration and argument-origin dataflow rules over rustc MIR (custom rustc_private driver), plus a "
             "confirmed-instance structural baseline of the named functions")

T = "grin_core::core::transaction::"
AGG = T + "aggregate"
DEAGG = T + "deaggregate"
CUT = T + "cut_through"
HYD = "grin_core::core::block::Block::hydrate_from"
SKO = "grin_core::core::committed::sum_kernel_offsets"
EXT = "re:alloc::vec::Vec.*::extend_from_slice$"
TXNEW = T + "Transaction::new"
BINIT = T + "TransactionBody::init"


def run(c):
    import r9
    c.r9("C12")
    # --- aggregate
    c.r1("aggregate-cut-through-first", AGG, CUT, sink=TXNEW, via=1, desc="aggregate: the aggregate transaction is built only after cut_through succeeded")
    for i, what in ((0, "inputs"), (1, "outputs")):
        c.r2_arg("aggregate-uses-cut-%s" % what, AGG, TXNEW, i, must=["call:transaction::cut_through"],
                 desc="aggregate: the %s of the result are the ones cut_through returned (not the uncut vector)" % what)
    c.r2_arg("aggregate-offset-is-sum", AGG, T + "Transaction::with_offset", 1, must=["call:committed::sum_kernel_offsets"],
             desc="aggregate: the offset of the result is the sum_kernel_offsets of the collected offsets")
    c.r2_arg("aggregate-no-negative-offsets", AGG, SKO, 1, must=["call:Vec::new"], must_not=["arg0"],
             desc="aggregate: nothing is subtracted from the offset sum (empty negative list)")
    c.loop("aggregate-collects-every-tx", AGG, EXT, "arg0", desc="aggregate: every transaction's inputs / outputs / kernels are collected (per loop iteration)")
    c.loop("aggregate-collects-every-offset", AGG, "re:alloc::vec::Vec.*::push$", "arg0", desc="aggregate: every transaction's offset is collected")
    # --- cut_through
    c.r1("cut-through-sorts-first", CUT, "re:core::slice::(?:<impl \\[T\\]>::)?sort_unstable_by_key$", sink="re:core::cmp::Ord::cmp$|core::cmp::impls::.*::cmp$", via=0, called_only=True,
         desc="cut_through sorts by commitment before the merge walk compares anything")
    c.r2("cut-through-dup-inputs", CUT, cond=r"Iterator::any\(slice::windows\(", err="CutThrough", fail_on=True, min_guards=2, dominate=False,
         desc="cut_through refuses duplicate inputs and duplicate outputs after cut-through (two windows(2).any tests)")
    # --- hydrate_from
    c.r1("hydrate-cut-through-first", HYD, CUT, sink=BINIT, via=1, desc="hydrate_from: the body is built only after cut_through succeeded")
    c.r2_arg("hydrate-uses-cut-inputs", HYD, BINIT, 0, must=["call:transaction::cut_through"], desc="hydrate_from: the body's inputs are the ones cut_through returned")
    c.r2_arg("hydrate-uses-cut-outputs", HYD, BINIT, 1, must=["call:transaction::cut_through"], desc="hydrate_from: the body's outputs are the ones cut_through returned (plus the compact block's full outputs)")
    c.loop("hydrate-collects-every-tx", HYD, EXT, "arg1", desc="hydrate_from: every transaction's inputs / outputs / kernels are collected (per loop iteration)")
    c.r1("hydrate-adds-full-parts", HYD, EXT, start=CUT, sink="ok", via=0, called_only=True, desc="hydrate_from: the compact block's full outputs / kernels are added after cut-through")
    # --- deaggregate
    c.r1("deaggregate-aggregates-subset", DEAGG, AGG, sink=TXNEW, via=1, desc="deaggregate: the known subset is aggregated before the remainder is built")
    # sum_kernel_offsets returns zero as soon as its *positive* list is empty (after dropping zero offsets) and never looks at the negative
    # one; it is therefore only usable where nothing is subtracted, or where the positive side was shown non-zero first. The call sites are a
    # closed, reviewed set: aggregate / Block::from_reward (empty negative list) and Block::block_kernel_offset (the equal-sums case is taken
    # before the call). deaggregate subtracts the known offsets from a possibly zero aggregate offset and has its own both-sides-empty test.
    c.r3("sum-kernel-offsets-callers", SKO, {AGG, "grin_core::core::block::Block::from_reward", "grin_core::core::block::Block::block_kernel_offset"}, floor_sites=3,
         desc="sum_kernel_offsets (zero when the positive list is empty, whatever is subtracted) is called only where that shortcut was reviewed")
    c.r2_arg("from-reward-no-negative-offsets", "grin_core::core::block::Block::from_reward", SKO, 1, must=["call:Vec::new"],
             desc="Block::from_reward: nothing is subtracted from the offset sum (empty negative list)")
    # --- compact block
    CB = "re:^<grin_core::core::compact_block::CompactBlock as core::convert::From<grin_core::core::block::Block>>::from$"
    c.r1("compact-body-init", CB, "grin_core::core::compact_block::CompactBlockBody::init", sink="return", via=0, called_only=True,
         desc="From<Block> for CompactBlock initialises (sorts) the compact body")
    c.r2_arg("compact-short-id-keyed", CB, "re:id::ShortIdentifiable::short_id$", 1, must=["call:Hashed::hash"], desc="short ids are keyed by the header hash")
