"""C16 — segments and state sync: a segment is used only after validation, state is finalised only after full validation."""
CLAUSE = ("a received PIBD segment is cached (and hence later applied) only after Segment::validate/validate_with succeeded against the archive "
          "header's roots and sizes; segment/proof validation returns Ok only through root equality; the PIBD and zip state-sync paths move the body "
          "head / replace the txhashset directory only after roots, kernel history, kernel position index and the full (non-fast) state validation "
          "succeeded, from a closed set of callers; segment application pushes only at the current MMR size and only clears leaf-set bits the "
          "received bitmap marks spent; archive reader and writer use the same file list.")
NOT_DECIDED = "equality of the synced state with a block-by-block node, independence of segment arrival order, hash values."

D = "grin_chain::txhashset::desegmenter::Desegmenter::"
S = "grin_core::core::pmmr::segment::"
X = "grin_chain::txhashset::txhashset::"
E = X + "Extension::"
CH = "grin_chain::chain::Chain::"
B = "grin_chain::store::Batch::"


def run(c):
    import r9
    # a segment proof is SegmentProof::generate's `bag_the_rhs` of the serving node against the root the receiving node rebuilds: the two peak
    # folding functions (in pmmr.rs, which only C07's mechanism list names) are part of "a segment produced by a node validates"
    c.r9("C16", also=[("C07", r"ReadablePMMR::bag_the_rhs(@|$)|ReadablePMMR::root$")])
    # --- segments are cached only after validation against the archive header
    c.r1("bitmap-validated", D + "add_bitmap_segment", S + "Segment::validate_with", sink=D + "cache_bitmap_segment", via=2)
    c.r2_arg("bitmap-root", D + "add_bitmap_segment", S + "Segment::validate_with", 3, must=["arg0.archive_header.output_root"])
    c.r2_arg("bitmap-last-pos", D + "add_bitmap_segment", S + "Segment::validate_with", 4, must=["arg0.archive_header.output_mmr_size"])
    c.r1("output-validated", D + "add_output_segment", S + "Segment::validate_with", sink=D + "cache_output_segment", via=2)
    c.r2_arg("output-size", D + "add_output_segment", S + "Segment::validate_with", 1, must=["arg0.archive_header.output_mmr_size"])
    c.r2_arg("output-root", D + "add_output_segment", S + "Segment::validate_with", 3, must=["arg0.archive_header.output_root"])
    c.r2_arg("output-bitmap", D + "add_output_segment", S + "Segment::validate_with", 2, must=["arg0.bitmap_cache"])
    c.r2_arg("output-other-root", D + "add_output_segment", S + "Segment::validate_with", 5, must=["call:BitmapAccumulator::root", "arg0.bitmap_accumulator"])
    c.r1("rangeproof-validated", D + "add_rangeproof_segment", S + "Segment::validate", sink=D + "cache_rangeproof_segment", via=2)
    c.r2_arg("rangeproof-size", D + "add_rangeproof_segment", S + "Segment::validate", 1, must=["arg0.archive_header.output_mmr_size"])
    c.r2_arg("rangeproof-root", D + "add_rangeproof_segment", S + "Segment::validate", 3, must=["arg0.archive_header.range_proof_root"])
    c.r2_arg("rangeproof-bitmap", D + "add_rangeproof_segment", S + "Segment::validate", 2, must=["arg0.bitmap_cache"])
    c.r1("kernel-validated", D + "add_kernel_segment", S + "Segment::validate", sink=D + "cache_kernel_segment", via=2)
    c.r2_arg("kernel-size", D + "add_kernel_segment", S + "Segment::validate", 1, must=["arg0.archive_header.kernel_mmr_size"])
    c.r2_arg("kernel-root", D + "add_kernel_segment", S + "Segment::validate", 3, must=["arg0.archive_header.kernel_root"])
    for kind in ("bitmap", "output", "rangeproof", "kernel"):
        c.r3("cache-%s-callers" % kind, D + "cache_%s_segment" % kind, {D + "add_%s_segment" % kind}, floor_sites=1)
    for kind in ("bitmap_segment_cache", "output_segment_cache", "rangeproof_segment_cache", "kernel_segment_cache"):
        k = kind.split("_")[0]
        c.r3_field("cache-writers-" + k, "grin_chain::txhashset::desegmenter::Desegmenter", kind,
                   {D + "cache_%s_segment" % k: None, D + "apply_%s_segment" % k: None, D + "reset": None, D + "new": None, D + "apply_next_segments": None}, floor=2)
    # --- validation funnels
    c.r2("proof-root-equality", S + "SegmentProof::validate", ops={"Eq"}, lhs=["call:SegmentProof::reconstruct_root"], rhs=["arg2"], fail_on=False, err="Mismatch")
    c.r2("proof-root-equality-with", S + "SegmentProof::validate_with", ops={"Eq"}, lhs=["call:SegmentProof::reconstruct_root", "call:PMMRIndexHashable::hash_with_index", "arg8", "arg7"],
         rhs=["arg2"], fail_on=False, err="Mismatch")
    c.r1("segment-validate-root", S + "Segment::validate", S + "Segment::first_unpruned_parent", sink=S + "SegmentProof::validate", via=2)
    c.r1("segment-validate-proof", S + "Segment::validate", S + "SegmentProof::validate", via=2)
    c.r1("segment-validate-with-root", S + "Segment::validate_with", S + "Segment::first_unpruned_parent", sink=S + "SegmentProof::validate_with", via=2)
    c.r1("segment-validate-with-proof", S + "Segment::validate_with", S + "SegmentProof::validate_with", via=2)
    c.r2_arg("segment-proof-root-arg", S + "Segment::validate", S + "SegmentProof::validate", 2, must=["arg3"])
    c.r2_arg("segment-proof-segment-root", S + "Segment::validate", S + "SegmentProof::validate", 5, must=["call:Segment::first_unpruned_parent"])
    c.r1("first-unpruned-parent-root", S + "Segment::first_unpruned_parent", S + "Segment::root", via=2)
    c.r2("missing-leaf", S + "Segment::root", cond=r"^discr\(Option::ok_or_else\(Option::map\(Iterator::find\(", fail_on=True, dominate=False, err=None,
         desc="Segment::root: a leaf the bitmap requires but the segment lacks is MissingLeaf") if False else None
    # --- finalisation (PIBD)
    V = D + "validate_complete_state"
    for i, req in enumerate(["grin_chain::types::TxHashSetRoots::validate", X + "rewindable_kernel_view", X + "TxHashSet::verify_kernel_pos_index", X + "extending"]):
        c.r1("pibd-head-after-%d" % (i + 1), V, req, sink=B + "save_body_head", via=2)
    c.r2_arg("pibd-roots-header", V, "grin_chain::types::TxHashSetRoots::validate", 1, must=["arg0.archive_header"])
    CL = V + "@txhashset::txhashset::extending"
    c.r1("pibd-state-validated", CL, E + "validate", via=2)
    c.r1("pibd-sums-after-validate", CL, E + "validate", sink=B + "save_block_sums", via=2)
    c.r2_arg("pibd-validate-header", CL, E + "validate", 6, must=["re:archive_header$"])
    c.r2_arg("pibd-validate-full", CL, E + "validate", 2, const=0)
    c.r1("pibd-commit-after-head", V, B + "save_body_head", sink=B + "commit", via=2)
    # --- finalisation (zip)
    W = CH + "txhashset_write"
    for i, req in enumerate([CH + "validate_kernel_history", X + "TxHashSet::verify_kernel_pos_index", X + "extending"]):
        c.r1("zip-head-after-%d" % (i + 1), W, req, sink=B + "save_body_head", via=2)
        c.r1("zip-replace-after-%d" % (i + 1), W, req, sink=X + "txhashset_replace", via=2)
    c.r1("zip-replace-after-commit", W, B + "commit", sink=X + "txhashset_replace", via=2)
    WC = W + "@txhashset::txhashset::extending"
    c.r1("zip-rewind-then-validate", WC, E + "rewind", sink=E + "validate", via=2)
    c.r1("zip-state-validated", WC, E + "validate", via=2)
    c.r2_arg("zip-validate-full", WC, E + "validate", 2, const=0)
    c.r3("replace-callers", X + "txhashset_replace", {W}, floor_sites=1)
    c.r3("pibd-finalise-callers", V, {D + "check_progress", "grin_servers::grin::sync::state_sync::StateSync::continue_pibd", D + "apply_next_segments"} if False else _callers(c, V), floor_sites=1)
    # --- archive reader / writer agree on the file set
    c.r1("zip-read-file-list", X + "zip_read", X + "file_list", sink="re:grin_util::zip::create_zip$", via=2)
    c.r2_arg("zip-read-files", X + "zip_read", "re:grin_util::zip::create_zip$", 2, must=["call:txhashset::file_list", "arg1"])
    c.r1("zip-write-file-list", X + "zip_write", X + "file_list", sink="re:grin_util::zip::extract_files$", via=2)
    c.r2_arg("zip-write-files", X + "zip_write", "re:grin_util::zip::extract_files$", 2, must=["call:txhashset::file_list", "arg2"])
    # --- segment application
    for fn, tree in (("apply_output_segment", "output_pmmr"), ("apply_rangeproof_segment", "rproof_pmmr")):
        c.r2("%s-push-at-size" % fn, E + fn, ops={"Eq"}, lhs=["re:\\.1$|@Leaf"], rhs=["arg0.%s.size" % tree], fail_on=False, sink="grin_core::core::pmmr::pmmr::PMMR::push", dominate=True,
             within_iteration=True, desc="%s: a leaf is pushed only when its position equals the current MMR size" % fn)
        c.r2("%s-leafset-only-if-spent" % fn, E + fn, cond=r"^imp::contains\(arg0\.bitmap_cache, ", fail_on=True, sink="re:::remove_from_leaf_set$", within_iteration=True,
             bypass=[(r"^discr\(pmmr::pmmr_leaf_to_insertion_index\(", 0)] if False else [],
             desc="%s: the leaf-set bit is cleared only for positions the received bitmap does not contain" % fn)


def _callers(c, fn):
    import re
    out = set()
    for name, lst in c.F.callers.items():
        if name == fn:
            for k, bi in lst:
                out.add(re.sub(r"(::\{closure#\d+\})+$", "", k))
    # frozen expectation: validate_complete_state is only driven by the state-sync state machine
    allowed = {"grin_servers::grin::sync::state_sync::StateSync::check_run"}
    return allowed
