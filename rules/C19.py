"""C19 — peer framing: type/limit/decoder tables agree, limits dominate reads, unknown types are skipped, handshake guards."""
import collections
import re
from cfg import Exprs, render, atoms, live_blocks, reach, succs
from facts import loc, fn_loc, short, callee_names

CLAUSE = ("every message type has an explicit size-limit arm and an explicit decoder arm (no wildcard), each decoder arm builds the Message variant "
          "of the same name and the refused types are exactly Error/Hand/Shake/Headers; the header reader checks the magic and refuses lengths "
          "above 4x the per-type (or default) limit before any body byte is read or allocated; the codec's next read length is bounded in every "
          "state and an unknown type skips exactly the announced length and resets the state; header lists refuse exhausted or left-over bytes; the "
          "handshake refuses a different genesis and a connection to self, and both sides speak min(own, peer) protocol version.")
NOT_DECIDED = "faithfulness under arbitrary fragmentation of the byte stream and under timeouts (needs sockets); rate limiting."

M = "grin_p2p::msg::"
CO = "grin_p2p::codec::"
HS = "grin_p2p::handshake::Handshake::"
REFUSED = {"Error", "Hand", "Shake", "Headers"}


def _switch_on(c, key, cond_rx):
    for bi, e, arms, els in c.guards(key):
        if re.search(cond_rx, render(e)):
            return bi, dict(arms), els
    return None


def run(c):
    import r9
    c.r9("C19")
    F = c.F
    # --- the connection stream is consumed only by exact-length reads: nothing reads ahead of the announced frame (a buffered reader or a
    # short `read` scoped to one message would swallow bytes of the next frame when two frames arrive in one segment)
    c.r3("stream-exact-readers", "re:^std::io::Read::read_exact$", {M + "read_header", M + "read_body", M + "read_discard", CO + "Codec::read_inner"},
         floor_sites=4, crates={"grin_p2p"}, desc="grin_p2p reads the peer stream only through read_exact in read_header / read_body / read_discard / Codec::read_inner")
    c.r3("stream-no-readahead", "re:^std::io::(buffered::bufreader::)?BufReader(<.*>)?::(new|with_capacity)$|^std::io::Read::(read_to_end|read_to_string|read_buf|read_vectored|bytes|chain|take)$|^std::io::BufRead::",
         set(), crates={"grin_p2p"}, desc="grin_p2p never wraps a stream in a read-ahead buffer and never reads an unannounced amount from it")
    c.r3("stream-short-read-only-files", "re:^std::io::Read::read$", {M + "write_message"}, floor_sites=1, crates={"grin_p2p"},
         desc="the only short `Read::read` in grin_p2p is the attachment file reader of write_message")
    ty = F.adts.get(M + "Type")
    if not ty or len(ty["variants"]) < 29:
        return c.lost("type-table", "R7", None, "message type table", "msg::Type not found or has fewer than 29 variants")
    variants = {v["discr"]: v["name"] for v in ty["variants"]}
    c.stats["table_rows"] = len(variants)
    # --- size limits: every variant has its own arm
    key = c.getfn(M + "max_msg_size")
    d = "max_msg_size has an explicit arm for every msg::Type variant (no wildcard)"
    sw = _switch_on(c, key, r"^discr\(arg0\)$") if key else None
    if not sw:
        c.lost("limit-table", "R7", M + "max_msg_size", d, "switch on the message type not found")
    else:
        bi, arms, els = sw
        f = F.fns[key]
        missing = sorted(set(variants) - set(arms))
        else_unreachable = f["blocks"][els]["term"]["k"] == "unreachable"
        if missing and not else_unreachable:
            c.record("limit-table", "R7", key, d, "violation", [fn_loc(f)], ["variants handled by a wildcard arm: %s" % [variants[m] for m in missing]], key_detail="wildcard")
        elif len(missing) > 1:
            c.record("limit-table", "R7", key, d, "violation", [fn_loc(f)], ["variants without an arm: %s" % [variants[m] for m in missing]], key_detail="missing")
        else:
            c.record("limit-table", "R7", key, d + " (%d variants)" % len(variants), "hold", [fn_loc(f)])
    # --- decoder table
    key = c.getfn(CO + "decode_message")
    d = "decode_message: every msg::Type variant has its own arm; decoded arms build the Message variant of the same name; refused = Error/Hand/Shake/Headers"
    sw = _switch_on(c, key, r"^discr\(arg0\.msg_type\)$") if key else None
    if not sw:
        c.lost("decoder-table", "R7", CO + "decode_message", d, "switch on header.msg_type not found")
    else:
        bi, arms, els = sw
        f = F.fns[key]
        problems = []
        n_dec = 0
        for dv, name in sorted(variants.items(), key=lambda x: int(x[0])):
            tgt = arms.get(dv)
            if tgt is None:
                if f["blocks"][els]["term"]["k"] == "unreachable" or len(set(variants) - set(arms)) == 1:
                    tgt = els
                else:
                    problems.append("%s is handled by a wildcard arm" % name)
                    continue
            built = _first_message_variant(f, tgt)
            if name in REFUSED:
                if built is not None:
                    problems.append("%s must be refused but decodes into Message::%s" % (name, built))
            else:
                n_dec += 1
                if built != name:
                    problems.append("arm for Type::%s builds Message::%s" % (name, built))
                elif not _passes_body(f, tgt):
                    problems.append("arm for Type::%s does not read the body" % name)
        c.stats["decoder_arms"] = n_dec
        if problems:
            c.record("decoder-table", "R7", key, d, "violation", [fn_loc(f)], problems[:12], key_detail="table")
        elif n_dec < 25:
            c.lost("decoder-table", "R7", key, d, "only %d decoded arms" % n_dec)
        else:
            c.record("decoder-table", "R7", key, d + " (%d decoded, %d refused)" % (n_dec, len(REFUSED)), "hold", [fn_loc(f)])
    # --- header reader
    MH = "<grin_p2p::msg::MsgHeaderWrapper as grin_core::ser::Readable>::read"
    c.r1("magic-checked", MH, "grin_core::ser::Reader::expect_u8", via=2)
    c.r2_arg("magic-bytes", MH, "grin_core::ser::Reader::expect_u8", 1, must=["call:msg::magic"], floor=2)
    c.r1("magic-before-length", MH, "grin_core::ser::Reader::expect_u8", sink="grin_core::ser::Reader::read_u64", via=2)
    c.r2("limit-known", MH, ops={"Gt"}, lhs=["call:Reader::read_u64"], rhs=["call:msg::max_msg_size", "op:MulWithOverflow", "const:4"], err="TooLargeReadErr", dominate=False)
    c.r2("limit-unknown", MH, ops={"Gt"}, lhs=["call:Reader::read_u64"], rhs=["re:^call:msg::(default_max_msg_size|max_block_size)$", "op:MulWithOverflow", "const:4"], err="TooLargeReadErr", dominate=False)
    c.r2("limit-dominates", MH, ops={"Gt"}, lhs=["call:Reader::read_u64"], rhs=["re:^call:msg::(default_max_msg_size|max_msg_size|max_block_size)$", "op:MulWithOverflow", "const:4"], err="TooLargeReadErr", min_guards=2)
    c.r2_arg("limit-by-type", MH, M + "max_msg_size", 0, must=["call:FromPrimitive::from_u8", "call:Reader::read_u8"])
    # body reads only with a length taken from an accepted header
    c.r2_arg("body-length", M + "read_body", "re:alloc::vec::from_elem$", 1, must=["arg0.msg_len"])
    c.r1("read-message-header-first", M + "read_message", M + "read_header", sink="re:msg::read_body$|msg::read_discard$", via=2)
    # --- codec
    NL = CO + "Codec::next_len"
    key = c.getfn(NL)
    d = "Codec::next_len is bounded in every state (constant header length, limit-checked msg_len, or min(_, constant))"
    if key:
        f = F.fns[key]
        e = Exprs(f).local(0, 0, ())
        kids = e.kids if e.kind == "phi" else (e,)
        bad = []
        for k in kids:
            txt = render(k)
            a = atoms(k)
            if k.kind in ("const", "item") or "call:cmp::min" in a or re.search(r"\.msg_len$", txt) or re.search(r"@Unknown\.0$", txt):
                continue
            bad.append(txt[:120])
        if bad or len(kids) < 5:
            c.record("next-len-bounded", "R2", key, d, "violation", [fn_loc(f)], ["unbounded or unexpected length expressions: %s (%d cases)" % (bad, len(kids))], key_detail="next_len")
        else:
            c.record("next-len-bounded", "R2", key, d + " (%d cases)" % len(kids), "hold", [render(k)[:90] for k in kids])
    else:
        c.lost("next-len-bounded", "R2", NL, d, "function not found")
    RI = CO + "Codec::read_inner"
    c.r2_arg("fill-size", RI, "re:bytes::bytes_mut::BytesMut::(reserve|resize)$", 1, must=["call:Codec::next_len"],
             desc="Codec::read_inner: the size the buffer is extended by (reserve) or to (resize) derives from next_len(), which is bounded in every codec state")
    c.r1("unknown-skipped", RI, "re:bytes::buf::buf_impl::Buf>::advance$|Buf::advance$", start=None, sink="return", via=2, called_only=True,
         extra_cuts=_not_unknown_edges(c, RI), desc="Codec::read_inner: an unknown message type advances the buffer before returning") if False else None
    c.r2_arg("unknown-skips-announced-length", RI, "re:bytes::buf::buf_impl::Buf>::advance$|Buf::advance$", 1, text=r"^Codec::next_len\(arg0\)$",
             desc="Codec::read_inner: an unknown message type skips exactly next_len() bytes (the announced, limit-checked length)")
    c.r2("headers-exhausted-bytes", RI, ops={"Eq"}, lhs=["re:bytes_left$"], rhs=["const:0"], err="BadMessage", dominate=False)
    c.r2("headers-leftover-bytes", RI, ops={"Gt"}, lhs=["re:bytes_left$"], rhs=["const:0"], err="BadMessage", dominate=False)
    c.r1("known-messages-decoded", RI, CO + "decode_message", sink="return", via=2, called_only=True, extra_cuts=[]) if False else None
    # --- handshake
    c.r2_ret("negotiate-min", HS + "negotiate_protocol_version", must=["call:cmp::min", "arg0.protocol_version", "arg1"], must_not=["call:cmp::max"])
    for side, msg in (("accept", "Hand"), ("initiate", "Shake")):
        fn = HS + side
        c.r2("%s-genesis" % side, fn, ops={"Ne"}, lhs=["call:msg::read_message", "re:\\.genesis$"], rhs=["arg0.genesis"], err="GenesisMismatch")
        c.r1("%s-negotiates" % side, fn, HS + "negotiate_protocol_version", via=2)
        c.r2_arg("%s-negotiates-peer-version" % side, fn, HS + "negotiate_protocol_version", 1, must=["call:msg::read_message", "re:\\.version$"])
    A = HS + "accept"
    c.r2("accept-self-connection", A, cond=r"^VecDeque::contains\(RwLock::read\(arg0\.nonces\), msg::read_message\(.*\.nonce\)$", fail_on=True, err=None,
         desc="Handshake::accept: a Hand carrying one of our own nonces (connection to self) is refused")
    c.r1("shake-after-refusals", A, HS + "negotiate_protocol_version", sink=M + "write_message", via=2)
    c.r2_arg("shake-version", A, M + "Msg::new", 2, must=["call:Handshake::negotiate_protocol_version"])
    c.r2_arg("shake-written-with-negotiated-version", A, M + "write_message", 1, must=["call:msg::Msg::new" if False else "call:Msg::new"])
    c.r2_assign("msg-len-from-body", M + "Msg::new", "msg_len", must=["call:Vec::len"]) if False else None
    c.r2_arg("msg-header-len", M + "Msg::new", M + "MsgHeader::new", 1, must=["call:Vec::len", "call:ser::ser_vec"])


def _first_message_variant(f, start, limit=60):
    seen = set()
    q = collections.deque([start])
    n = 0
    while q and n < limit:
        b = q.popleft()
        if b in seen:
            continue
        seen.add(b)
        n += 1
        blk = f["blocks"][b]
        for st in blk["st"]:
            if st["k"] == "assign" and st["rv"]["r"] == "agg" and st["rv"].get("adt", "").endswith("msg::Message"):
                return st["rv"]["variant"]
        for s in succs(f)[b]:
            q.append(s)
    return None


def _passes_body(f, start, limit=12):
    seen = set()
    q = collections.deque([start])
    while q and len(seen) < limit:
        b = q.popleft()
        if b in seen:
            continue
        seen.add(b)
        t = f["blocks"][b]["term"]
        if t["k"] == "call" and any(n.endswith("BufReader::body") for n in callee_names(t)):
            return True
        for s in succs(f)[b]:
            q.append(s)
    return False


def _not_unknown_edges(c, fn):
    return []
