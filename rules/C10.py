"""C10 — canonical, version-independent encodings: reader/writer structural agreement, hash independence, canonical-form refusals."""
import re
import r7
from cfg import render, switch_conditions, Exprs, atoms
from facts import fn_loc, loc, callee_names

CLAUSE = ("for every type with both a Readable and a Writeable implementation the sets of serialisation-op sequences (primitive ops with helper "
          "functions and nested types inlined, one set element per protocol-version / variant / tag branch) of reader and writer are equal, hash-mode "
          "writer paths and skip-PoW reader paths excluded; every use of the protocol version inside a writer lies on a non-hash-mode path and the "
          "hash writer's version does not depend on its state; the canonical-form refusals (sorted/unique bodies, zero padding, unknown or disabled "
          "kernel tags, NRD range, feature bytes, sorted segment positions, bitmap block bounds, item-count mismatch, unsupported protocol version, "
          "PoW padding bits, body weight pre-check) exist and end in errors; no decoder passes a wire value through a many-to-one operator (mask, shift, "
          "division, remainder, min/max/clamp, saturating or wrapping arithmetic) on its way into the decoded value unless the same function also "
          "refuses on a test over that operator (a decoder refuses a non-canonical encoding, it does not normalise it).")
NOT_DECIDED = "byte-exact round trip for all values, bit packing arithmetic of the PoW nonces, field-to-op binding for same-width fields (level L2 not armed)."

T = "grin_core::core::transaction::"
ASYMMETRIC = {
    "alloc::vec::Vec<T>": "generic container: written element by element, read back through read_multi(count) by the owning type",
    "grin_chain::txhashset::bitmap_accumulator::BitmapChunk": "reader is a stub returning an empty chunk; chunks travel inside BitmapSegment/BitmapBlock encodings",
    "grin_core::core::merkle_proof::MerkleProof": "reader loops Hash::read path_len times, writer uses Vec::write (same bytes; prefix u64,u64 is compared below)",
}


# many-to-one operators: a wire value that passes through one of them on its way into the decoded value is normalised, not refused
LOSSY = re.compile(r"^(op:(BitAnd|BitOr|BitXor|Shr|Shl|Rem|Div|ShrUnchecked|ShlUnchecked)|"
                   r"call:(cmp::min|cmp::max|Ord::min|Ord::max|Ord::clamp|num::(saturating|wrapping|overflowing)_\w+|num::(rotate|swap_bytes|reverse_bits)\w*))$")
# readers whose decoded value legitimately passes through such an operator today, one line of reason each
NORMALISING = {
    "<grin_chain::store::BoolFlag as grin_core::ser::Readable>::read": ({"op:BitAnd"}, "node-local LMDB flag (never hashed, never sent to a peer): the low bit of the byte is the flag"),
    "<grin_chain::txhashset::bitmap_accumulator::BitmapBlock as grin_core::ser::Readable>::read": ({"op:Div"}, "byte length of the raw bitmap is n_bits / 8, n_bits a multiple of the constant chunk size"),
    "<grin_core::core::merkle_proof::MerkleProof as grin_core::ser::Readable>::read": ({"call:cmp::min"}, "pre-allocation cap of the path vector (capacity only; every announced hash is still read)"),
    "<secp256k1zkp::pedersen::RangeProof as grin_core::ser::Readable>::read": ({"call:cmp::min"}, "proof length clamped to MAX_PROOF_SIZE (the fixed-size proof buffer); longer encodings fail the range-proof check"),
}


def _no_normalise(c):
    F = c.F
    seen = 0
    found_frozen = set()
    for k, fn in sorted(F.fns.items()):
        if fn.get("impl_trait") != "grin_core::ser::Readable":
            continue
        seen += 1
        ex = Exprs(fn)
        at = atoms(ex.local(0, 0, ()))
        lossy = {a for a in at if LOSSY.match(a)}
        wire = sorted(a for a in at if a.startswith("call:Reader::read_"))
        allowed, _why = NORMALISING.get(k, (set(), ""))
        if lossy & allowed:
            found_frozen.add(k)
        extra = lossy - allowed
        if not extra or not wire:
            continue
        # tolerated: the function refuses on a test that involves the same operator over a wire value (validated, then extracted)
        tested = set()
        for bi, e, arms, els in c.guards(k):
            ga = atoms(e)
            if any(a.startswith("call:Reader::read_") for a in ga):
                tested |= {a for a in ga if LOSSY.match(a)}
        extra -= tested
        if extra:
            c.fn_seen.add(k)
            c.record("decode-no-normalise", "R2", k, "%s: the decoded value does not pass a wire value through a many-to-one operator" % k, "violation", [fn_loc(fn)],
                     ["the value returned by the decoder derives from %s through %s and no test in the decoder refuses on that operator: two different encodings decode to the same value "
                      "(normalised instead of refused)" % (wire[:4], sorted(extra))], key_detail="lossy:" + ",".join(sorted(extra)))
    c.stats["readers_scanned_for_normalisation"] = seen
    if seen < 70:
        c.lost("decode-no-normalise", "R2", None, "decoders scanned for normalising operators", "only %d Readable implementations found, floor 70" % seen)
    elif len(found_frozen) < len(NORMALISING):
        # positive control: the matcher must keep finding the operators of the frozen entries
        c.lost("decode-no-normalise", "R2", None, "decoders scanned for normalising operators", "positive control lost: frozen entries no longer matched: %s" % sorted(set(NORMALISING) - found_frozen))
    else:
        c.record("decode-no-normalise-summary", "R2", None, "%d decoders scanned: none passes a wire value through a many-to-one operator on its way into the decoded value (%d frozen exceptions with reasons, all re-found)" % (
            seen, len(NORMALISING)), "hold", sorted(NORMALISING)[:4], key_detail="summary")


def _canon(seqs):
    out = set()
    for s in seqs:
        o = []
        for t in s:
            if t == "multi" and o and o[-1] == "multi":
                continue  # an empty Inputs/Vec writes nothing: runs of element lists compare as one
            o.append(t)
        out.add(tuple(o))
    return out


def run(c):
    import r9
    c.r9("C10")
    F = c.F
    S = r7.Seqs(F)
    tys = r7.types_with_both(F)
    both = {t: v for t, v in tys.items() if "W" in v and "R" in v}
    c.stats["serialisable_types"] = len(tys)
    c.stats["types_with_reader_and_writer"] = len(both)
    if len(both) < 70:
        c.lost("rw-inventory", "R7", None, "types with both Readable and Writeable", "only %d found, floor 70" % len(both))
    n_ok = 0
    npaths = 0
    for ty, v in sorted(both.items()):
        w = _canon(S.fn_seqs(v["W"], "W"))
        r = _canon(S.fn_seqs(v["R"], "R"))
        npaths += len(w) + len(r)
        c.fn_seen.update([v["W"], v["R"]])
        d = "reader/writer op sequences agree for %s" % ty
        if ty in ASYMMETRIC:
            if ty.endswith("MerkleProof"):
                wp = {s[:2] for s in w}
                rp = {s[:2] for s in r}
                if wp != rp or wp != {("u64", "u64")}:
                    c.record("rw-agree", "R7", v["W"], d, "violation", [fn_loc(F.fns[v["W"]])], ["prefix differs: W %s R %s" % (sorted(wp), sorted(rp))], key_detail=ty)
                    continue
            n_ok += 1
            continue
        if w == r and w:
            n_ok += 1
            continue
        c.record("rw-agree", "R7", v["W"], d, "violation", [fn_loc(F.fns[v["W"]]), fn_loc(F.fns[v["R"]])],
                 ["writer-only sequences: %s" % sorted(w - r)[:4], "reader-only sequences: %s" % sorted(r - w)[:4]], key_detail=ty)
    c.stats["op_sequences_compared"] = npaths
    if S.truncated:
        c.lost("rw-truncated", "R7", None, "path enumeration complete", "truncated in %s" % sorted(S.truncated))
    c.record("rw-agree-summary", "R7", None, "reader/writer op-sequence sets agree for %d of %d types (%d frozen asymmetries with reasons, %d sequences)" % (
        n_ok, len(both), len(ASYMMETRIC), npaths), "hold" if n_ok >= 70 else "anchor-lost",
        ["%s: %s" % (k.split("::")[-1], sorted(_canon(S.fn_seqs(both[k]["W"], "W")))[:2]) for k in sorted(both) if k.endswith(("::TxKernel", "::BlockHeader", "::PeerAddr"))],
        key_detail="summary")
    # writer-only / reader-only types are frozen
    one = sorted(t + ":" + "".join(v) for t, v in tys.items() if len(v) < 2)
    allowed_one = {"&'a A:W", "grin_core::core::block::UntrustedBlock:R", "grin_core::core::block::UntrustedBlockHeader:R", "grin_core::core::compact_block::UntrustedCompactBlock:R",
                   "grin_core::core::transaction::Inputs:W", "grin_p2p::msg::Headers:W", "grin_p2p::msg::MsgHeader:W", "grin_p2p::msg::MsgHeaderWrapper:R"}
    extra = [o for o in one if o not in allowed_one]
    if extra:
        c.record("one-sided", "R7", None, "types with only a reader or only a writer are a frozen set", "violation", [], ["unexpected: %s" % extra], key_detail="one-sided")
    else:
        c.record("one-sided", "R7", None, "types with only a reader or only a writer are a frozen set (%d)" % len(one), "hold", one[:4])
    # --- the mode comparisons the exclusion relies on
    modes = []
    for k, fn in F.fns.items():
        for bi, e, arms, els in switch_conditions(fn) if any(
                any(n.endswith("Writer::serialization_mode") or n.endswith("Reader::deserialization_mode") for n in callee_names(t)) for _b, t in F.calls(k)) else []:
            txt = render(e)
            if re.search(r"serialization_mode|deserialization_mode", txt):
                modes.append((k, txt[:90]))
    c.stats["mode_tests"] = len(modes)
    want = 8
    if len(modes) != want:
        c.record("mode-comparisons", "R7", None, "serialisation-mode tests are the %d known ones (hash mode / skip-PoW)" % want, "violation", [],
                 ["found %d: %s" % (len(modes), modes)], key_detail="modes")
    else:
        c.record("mode-comparisons", "R7", None, "serialisation-mode tests are the %d known ones (hash mode / skip-PoW)" % want, "hold", ["%s: %s" % m for m in modes[:4]])
    # --- hash independence
    users = sorted({k for k, bi in F.callers.get("grin_core::ser::Writer::protocol_version", []) if F.fns[k].get("impl_trait") == "grin_core::ser::Writeable"})
    if len(users) < 2:
        c.lost("hash-independent", "R1", None, "writers consult the protocol version only outside hash mode", "only %d writers use protocol_version" % len(users))
    for k in users:
        c.r2_edge("hash-independent:" + k.split(" as ")[0].split("::")[-1], k, [(r"^SerializationMode::is_hash_mode\(Writer::serialization_mode\(arg1\)\)$", "false")],
                  "grin_core::ser::Writer::protocol_version", desc="%s: protocol_version() is consulted only on the non-hash-mode edge" % k)
    c.r2_ret("hash-writer-version-constant", "<grin_core::core::hash::HashWriter as grin_core::ser::Writer>::protocol_version", must=[], must_not=["arg0"],
             desc="HashWriter::protocol_version does not depend on the writer's state")
    c.r1("hashed-uses-hash-writer", "<D as grin_core::core::hash::Hashed>::hash", "re:HashWriter as core::default::Default>::default$", sink="grin_core::ser::Writeable::write", via=2)
    # --- canonical-form refusals
    _no_normalise(c)
    c.r1("body-sorted-on-read", "<%sTransactionBody as grin_core::ser::Readable>::read" % T, T + "TransactionBody::init", via=2)
    c.r2_arg("body-sorted-flag", "<%sTransactionBody as grin_core::ser::Readable>::read" % T, T + "TransactionBody::init", 3, const=1)
    c.r1("init-verifies-sorted", T + "TransactionBody::init", T + "TransactionBody::verify_sorted", via=2, extra_cuts=c.false_edges(T + "TransactionBody::init", r"^arg3$"),
         desc="TransactionBody::init(.., verify_sorted = true) passes verify_sorted")
    c.r1_all("verify-sorted-all", T + "TransactionBody::verify_sorted", ["re:VerifySortedAndUnique<.*>>::verify_sorted_and_unique$|VerifySortedAndUnique::verify_sorted_and_unique$"], via=2)
    c.r3("sorted-unique-sites", "re:VerifySortedAndUnique::verify_sorted_and_unique$", {T + "TransactionBody::verify_sorted", "grin_core::core::compact_block::CompactBlockBody::verify_sorted", T + "Inputs::verify_sorted_and_unique"}, floor_sites=6)
    c.r2("body-weight-precheck", "<%sTransactionBody as grin_core::ser::Readable>::read" % T, ops={"Gt"}, lhs=["call:TransactionBody::weight_by_iok", "call:Reader::read_u64"],
         rhs=["call:global::max_tx_weight" if False else "re:^call:global::max_(block|tx)_weight$"], err="TooLargeReadErr", sink="grin_core::ser::read_multi")
    for fn in ("read_v1", "read_v2"):
        c.r2("kernel-unknown-tag-" + fn, T + "KernelFeatures::" + fn, cond=r"^Reader::read_u8\(arg0\)\.@Continue\.0$", fail_on=None, err="CorruptedData") if False else None
        c.r2("kernel-nrd-disabled-" + fn, T + "KernelFeatures::" + fn, cond=r"^global::is_nrd_enabled\(\)$", fail_on=False, err="CorruptedData", dominate=False,
             desc="KernelFeatures::%s: an NRD kernel is refused while the feature is disabled" % fn)
        key = c.getfn(T + "KernelFeatures::" + fn)
        if key:
            f = F.fns[key]
            from cfg import err_variant_reached
            hit = None
            for bi, e, arms, els in c.guards(key):
                if render(e) == "Reader::read_u8(arg0).@Continue.0":
                    ev = err_variant_reached(f, els)
                    hit = (len(arms), ev)
            d = "KernelFeatures::%s: the tag switch has 4 explicit arms and the wildcard arm is an error" % fn
            if hit and hit[0] == 4 and hit[1] and hit[1].endswith("CorruptedData"):
                c.record("kernel-unknown-tag-" + fn, "R2", key, d, "hold", [fn_loc(f)])
            else:
                c.record("kernel-unknown-tag-" + fn, "R2", key, d, "violation", [fn_loc(f)], ["found: %s" % (hit,)], key_detail="tag")
    c.r2("empty-bytes-zero", "grin_core::ser::Reader::read_empty_bytes", ops={"Ne"}, lhs=["call:Reader::read_u8"], rhs=["const:0"], err="CorruptedData", dominate=False,
         desc="read_empty_bytes: a non-zero padding byte is refused")
    c.r2("nrd-range", "<%sNRDRelativeHeight as core::convert::TryFrom<u16>>::try_from" % T, ops={"Lt", "Gt", "Ge", "Le", "Eq"}, any_side=["arg0"], err=None, dominate=False, strict_ops=False,
         desc="NRDRelativeHeight::try_from refuses out-of-range heights")
    c.r1("nrd-read-validates", "<%sNRDRelativeHeight as grin_core::ser::Readable>::read" % T, "re:NRDRelativeHeight as core::convert::TryFrom<u16>>::try_from$|TryFrom::try_from$|TryInto::try_into$", via=2)
    c.r1("output-features-validated", "<%sOutputFeatures as grin_core::ser::Readable>::read" % T, "re:FromPrimitive::from_u8$|OutputFeatures as num_traits::cast::FromPrimitive>::from_u8$", via=2)
    c.r1("compact-body-sorted", "<grin_core::core::compact_block::CompactBlockBody as grin_core::ser::Readable>::read", "grin_core::core::compact_block::CompactBlockBody::init", via=2)
    c.r2("segment-positions-sorted", "grin_core::core::pmmr::segment::read_segment_positions", ops={"Le"}, lhs=["call:Reader::read_u64"], err="SortError", dominate=False)
    BB = "<grin_chain::txhashset::bitmap_accumulator::BitmapBlock as grin_core::ser::Readable>::read"
    c.r2("bitmap-block-bounds", BB, ops={"Ge"}, lhs=["call:Reader::read_u16"], rhs=["call:Reader::read_u8", "op:MulWithOverflow", "re:^item:BitmapChunk::LEN_BITS="], err="CorruptedData",
         sink="re:bit_vec::BitVec::set$", min_guards=2)
    c.r1("bitmap-serialisation-tag", "<grin_chain::txhashset::bitmap_accumulator::BitmapBlockSerialization as grin_core::ser::Readable>::read", "re:FromPrimitive::from_u8$|from_u8$", via=2)
    c.r2("read-multi-count", "grin_core::ser::read_multi", ops={"Gt"}, lhs=["arg1"], err="TooLargeReadErr", dominate=False, strict_ops=False)
    c.r2("inputs-unsupported-version", "<%sInputs as grin_core::ser::Writeable>::write" % T, cond=r"ProtocolVersion::value\(Writer::protocol_version\(arg1\)\)", fail_on=None, err=None) if False else None
    PR = "<grin_core::pow::types::Proof as grin_core::ser::Readable>::read"
    c.r2("pow-padding", PR, ops={"Ne"}, lhs=["call:types::read_number"], rhs=["const:0"], err="CorruptedData", dominate=False, strict_ops=False)
    c.r2("pow-edge-bits-zero", PR, ops={"Eq"}, lhs=["call:Reader::read_u8"], rhs=["const:0"], err="CorruptedData")
    c.r2("pow-edge-bits-max", PR, ops={"Gt"}, lhs=["call:Reader::read_u8"], rhs=["const:63"], err="CorruptedData")
