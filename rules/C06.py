"""C06 — a failed or losing input leaves best-chain state untouched: all-exit rollback discipline and commit placement."""
CLAUSE = ("every exit of the writable txhashset wrappers after the closure ran discards the header backend, error/rollback exits discard all "
          "three txhashset backends and never commit the child batch, the commit exit commits then syncs the three backends in order; the read-only "
          "wrappers discard on every exit and never commit; Chain commits its LMDB batch only after the pipeline call succeeded; the block is stored "
          "only after the extension succeeded; discard restores every component that append/rewind/remove mutate; the writable wrappers, "
          "the LMDB commit and the leaf-set backup have closed caller/writer sets; no Result of the storage layer is silently dropped.")
NOT_DECIDED = "equality of all observable state with a twin node that never saw the failing input (needs execution); I/O failure of the durable step itself."

X = "grin_chain::txhashset::txhashset::"
P = "grin_chain::pipe::"
CH = "grin_chain::chain::"
DS = "grin_chain::txhashset::desegmenter::Desegmenter::"
DISCARD = "grin_store::pmmr::PMMRBackend::discard"
SYNC = "grin_store::pmmr::PMMRBackend::sync"
COMMIT = "grin_chain::store::Batch::commit"
CALL_ONCE = "re:ops::function::FnOnce::call_once$"


def run(c):
    import r9
    c.r9("C06")
    # --- the six wrappers run their closure on every ok path (justifies treating closures as executing within the call site)
    for w in ("extending", "header_extending", "extending_readonly", "header_extending_readonly", "utxo_view", "rewindable_kernel_view"):
        c.r1("wrapper-invokes-closure-" + w, X + w, CALL_ONCE, sink="ok", via=2, desc="%s: Ok only if the closure returned Ok" % w)
    # --- extending
    W = X + "extending"
    c.r1("ext-header-discard", W, DISCARD, require_where=r"^arg0\.backend", start=CALL_ONCE, sink="return", via=2,
         desc="extending: every exit after the closure discards the header MMR backend")
    err_arm = c.arm_blocks(W, r"^discr\(FnOnce::call_once\(arg3", 1)
    rb_arm = [e[1] for e in c.true_edges(W, r"^Extension::new\(arg1, .*\)\.rollback$")]
    ok_arm = [e[1] for e in c.false_edges(W, r"^Extension::new\(arg1, .*\)\.rollback$")]
    for name, arm in (("err", err_arm), ("rollback", rb_arm)):
        for tree in ("output_pmmr_h", "rproof_pmmr_h", "kernel_pmmr_h"):
            c.r1("ext-%s-discards-%s" % (name, tree), W, DISCARD, require_where=r"^arg1\.%s\.backend" % tree, start=arm, sink="return", via=2,
                 desc="extending: the %s exit discards %s" % (name, tree))
        c.never("ext-%s-no-commit" % name, W, arm, COMMIT, desc="extending: the %s exit never commits the child batch" % name)
        c.never("ext-%s-no-sync" % name, W, arm, SYNC, desc="extending: the %s exit never syncs a backend" % name)
    # in-memory state of the TxHashSet (MMR sizes, the unspent-output bitmap accumulator) is replaced on the commit exit only: a failed or
    # rolled-back (losing fork) extension leaves what later readers and the next extension start from exactly as it was
    for field in ("bitmap_accumulator", "size"):
        _no_assign(c, "ext-err-rollback-keeps-" + field, W, err_arm + rb_arm, field)
    c.r1("ext-commit", W, COMMIT, start=ok_arm, sink="ok", via=2, desc="extending: the commit exit commits the child batch")
    for tree in ("output_pmmr_h", "rproof_pmmr_h", "kernel_pmmr_h"):
        c.r1("ext-commit-syncs-" + tree, W, SYNC, require_where=r"^arg1\.%s\.backend" % tree, start=ok_arm, sink="ok", via=2,
             desc="extending: the commit exit syncs %s" % tree)
    c.r1("ext-sync-after-commit", W, COMMIT, start=ok_arm, sink=SYNC, via=2, desc="extending: backends are synced only after the child batch committed")
    c.never("ext-commit-no-discard", W, ok_arm, DISCARD, desc="extending: the commit exit does not discard", dead_errors=True)
    c.r2_arg("ext-commit-child", W, COMMIT, 0, must=["call:Batch::child"], desc="extending commits the child batch (not the caller's batch)")
    # --- header_extending
    H = X + "header_extending"
    h_err = c.arm_blocks(H, r"^discr\(FnOnce::call_once\(arg2", 1)
    h_rb = [e[1] for e in c.true_edges(H, r"^HeaderExtension::new\(.*\)\.rollback$")]
    h_ok = [e[1] for e in c.false_edges(H, r"^HeaderExtension::new\(.*\)\.rollback$")]
    c.r1("hext-err-discards", H, DISCARD, start=h_err, sink="return", via=2)
    c.never("hext-err-no-commit", H, h_err, COMMIT)
    c.r1("hext-rollback-discards", H, DISCARD, start=h_rb, sink="return", via=2)
    c.never("hext-rollback-no-commit", H, h_rb, COMMIT)
    c.r1("hext-commit", H, COMMIT, start=h_ok, sink="ok", via=2)
    c.r1("hext-sync", H, SYNC, start=h_ok, sink="ok", via=2)
    c.r1("hext-sync-after-commit", H, COMMIT, start=h_ok, sink=SYNC, via=2)
    # --- read-only wrappers
    R = X + "extending_readonly"
    for tree, where in (("header", r"^arg0\.backend"), ("output", r"^arg1\.output_pmmr_h\.backend"), ("rproof", r"^arg1\.rproof_pmmr_h\.backend"),
                        ("kernel", r"^arg1\.kernel_pmmr_h\.backend")):
        c.r1("ro-discards-" + tree, R, DISCARD, require_where=where, start=CALL_ONCE, sink="return", via=2,
             desc="extending_readonly: every exit after the closure discards the %s backend" % tree)
    c.r1("hro-discards", X + "header_extending_readonly", DISCARD, start=CALL_ONCE, sink="return", via=2)
    for w in ("extending_readonly", "header_extending_readonly", "utxo_view", "rewindable_kernel_view"):
        c.never("ro-never-commits-" + w, X + w, None, "re:::commit$", desc="%s never commits its batch" % w)
        c.never("ro-never-syncs-" + w, X + w, None, SYNC, desc="%s never syncs a backend" % w)
    # --- Chain: commit only after pipeline success; block saved only after the extension succeeded
    c.r1("commit-after-process_block", CH + "Chain::process_block_single", P + "process_block", sink=COMMIT, via=2)
    c.r1("commit-after-process_block_header", CH + "Chain::process_block_header", P + "process_block_header", sink=COMMIT, via=2)
    c.r1("commit-after-process_block_headers", CH + "Chain::sync_block_headers", P + "process_block_headers", sink=COMMIT, via=2)
    c.r1("announce-after-commit", CH + "Chain::process_block_single", COMMIT, sink="grin_chain::types::ChainAdapter::block_accepted", via=2,
         desc="process_block_single: the adapter learns about a block only after the batch committed")
    c.r1("orphans-only-after-success", CH + "Chain::process_block", CH + "Chain::process_block_single", sink=CH + "Chain::check_orphans", via=2,
         desc="Chain::process_block: orphans are re-processed only after the block itself was accepted")
    c.r1("block-saved-after-extension", P + "process_block", X + "extending", sink=P + "add_block", via=2)
    c.no_reach_cg("no-write-before-extension", [P + "check_known", P + "validate_pow_only", P + "prev_header_store", P + "validate_block"],
                  "re:grin_store::lmdb::Batch::(put|put_ser|delete)$", desc="the pipeline steps before the extension (other than storing the validated header) never write to the batch")
    # --- discard completeness
    B = "grin_store::pmmr::PMMRBackend::discard"
    c.r1("backend-discard-hash", B, "grin_store::types::DataFile::discard", require_where=r"^arg0\.hash_file", sink="return", via=2)
    c.r1("backend-discard-data", B, "grin_store::types::DataFile::discard", require_where=r"^arg0\.data_file", sink="return", via=2)
    c.r1("backend-discard-leafset", B, "grin_store::leaf_set::LeafSet::discard", sink="return", via=2)
    c.r1("datafile-discard", "grin_store::types::DataFile::discard", "grin_store::types::AppendOnlyFile::discard", sink="return", via=2)
    A = "grin_store::types::AppendOnlyFile::discard"
    c.r2_assign("aof-discard-restores-start", A, "buffer_start_pos", must=["arg0.buffer_start_pos_bak"])
    c.r2_assign("aof-discard-clears-buffer", A, "buffer", must=["call:Vec::new"], sink="return")
    c.r2("aof-discard-recurses", A, cond=r"^discr\(arg0\.size_info\)$", dominate=False, fail_on=True, sink="grin_store::types::AppendOnlyFile::discard",
         desc="AppendOnlyFile::discard also discards the size file") if False else None
    c.r1("aof-discard-sizefile", A, A, sink="return", via=2, extra_cuts=_not_variable(c, A),
         desc="AppendOnlyFile::discard: a variable-size file also discards its size file")
    c.r2_assign("leafset-discard-restores", "grin_store::leaf_set::LeafSet::discard", "bitmap", must=["arg0.bitmap_bak"], sink="return")
    c.r3_field("leafset-backup-writers", "grin_store::leaf_set::LeafSet", "bitmap_bak", {"grin_store::leaf_set::LeafSet::flush": {"assign"}}, floor=1)
    # --- closed caller sets
    c.r3("lmdb-commit-callers", "re:heed::txn::RwTxn::commit$",
         {"grin_store::lmdb::Batch::commit", "grin_store::lmdb::Store::new", "grin_store::lmdb::Store::clear", "grin_store::lmdb::Store::migrate_to_default_env"}, floor_sites=5)
    c.r3("extending-callers", X + "extending",
         {P + "process_block", CH + "Chain::reset_chain_head", CH + "Chain::reset_prune_lists", CH + "Chain::txhashset_write", CH + "setup_head",
          DS + "check_update_leaf_set_state", DS + "validate_complete_state", DS + "finalize_bitmap", DS + "apply_output_segments",
          DS + "apply_rangeproof_segments", DS + "apply_kernel_segments"}, floor_sites=13)
    c.r3("header_extending-callers", X + "header_extending",
         {P + "process_block_header", P + "process_block_headers", CH + "Chain::reset_chain_head", CH + "setup_head"}, floor_sites=5)
    c.r3("backend-sync-callers", SYNC, {X + "extending", X + "header_extending"}, floor_sites=4)
    c.r3("backend-discard-callers", DISCARD, {X + "extending", X + "header_extending", X + "extending_readonly", X + "header_extending_readonly"}, floor_sites=14)
    # --- result discipline in the storage layer
    c.r6("no-dropped-results", ["grin_chain", "grin_store"], {
        "grin_chain::chain::Chain::remove_historical_blocks|Batch::delete_block|1": "best-effort deletion of blocks below the horizon",
        "grin_chain::chain::setup_head|Batch::delete_block|1": "recovery arm: the bad block may already be absent",
        "grin_chain::store::Batch::delete_block|Batch::delete_block_sums|1": "sums may not exist for the block",
        "grin_chain::store::Batch::delete_block|Batch::delete_spent_index|1": "spent index may not exist for the block",
        "grin_store::lmdb::Store::new|Store::clear|1": "clearing an unused legacy database during migration",
        "grin_store::lmdb::Store::migrate_to_default_env|Sender::send|1": "progress notification channel",
        "grin_store::lmdb::Store::migrate_to_default_env|Sender::send|2": "progress notification channel",
        "grin_store::lmdb::Store::migrate_to_default_env|Sender::send|3": "progress notification channel",
    }, floor_checked=600)


def _not_variable(c, fn):
    """Edges of the `if let SizeInfo::VariableSize(..)` test taken for fixed-size files."""
    key = c.getfn(fn)
    out = []
    if key:
        for bi, e, arms, els in c.guards(key):
            from cfg import render
            if render(e) == "discr(arg0.size_info)":
                am = dict(arms)
                # VariableSize is variant 1; every other target is the fixed-size bypass
                for v, t in list(am.items()) + [("else", els)]:
                    if v != "1":
                        out.append((bi, t))
    return out


def _no_assign(c, rid, fn, starts, field):
    """From the given blocks no assignment to `.field` of the shared TxHashSet is reachable."""
    from cfg import reachable_set
    from facts import fn_loc
    key = c.getfn(fn)
    d = "%s: the error/rollback exits do not assign .%s (the in-memory state is replaced on the commit exit only)" % (fn.split("::")[-1], field)
    if key is None or not starts:
        return c.lost(rid, "R1", fn, d, "function or start blocks not found")
    f = c.F.fns[key]
    # positive control: the commit exit does assign it
    n_all = 0
    for b in f["blocks"]:
        for st in b["st"]:
            if st["k"] == "assign" and st["dst"]["p"]:
                last = [p for p in st["dst"]["p"] if p != "*"]
                if last and isinstance(last[-1], dict) and last[-1].get("f") == field:
                    n_all += 1
    if not n_all:
        return c.lost(rid, "R1", key, d, "no assignment to .%s anywhere in %s (field renamed?)" % (field, key))
    for bi in reachable_set(f, starts):
        for st in f["blocks"][bi]["st"]:
            if st["k"] == "assign" and st["dst"]["p"]:
                last = [p for p in st["dst"]["p"] if p != "*"]
                if last and isinstance(last[-1], dict) and last[-1].get("f") == field:
                    return c.record(rid, "R1", key, d, "violation", ["%s:%s" % (f["span"]["file"], st.get("line"))], ["assignment to .%s reachable from an error/rollback exit" % field], key_detail="assign:" + field)
    return c.record(rid, "R1", key, d, "hold", [fn_loc(f)])
