"""C18 — LMDB batches: all-or-nothing writes, read-your-writes inside, committed-only outside, resize only with no open transaction."""
CLAUSE = ("every database mutation goes through a batch's write transaction (closed caller sets for put/delete/clear, write_txn, "
          "nested_write_txn and commit); reads inside a batch go through a nested read transaction of its own write transaction, reads outside "
          "through a fresh read transaction of the environment; every transaction is created after registering with the open-transaction counter; "
          "the environment is resized only behind the `resizing` flag with zero open transactions (immediately, or by the waiter thread after it "
          "observed zero) and both flags are cleared afterwards; a new batch first runs the resize check; commit consumes the batch exactly once.")
NOT_DECIDED = "LMDB's own atomic, durable commit and snapshot isolation; heed's abort-on-drop (trusted base); type-level facts (Batch is !Send, commit by value) are checked by the thorough-tier witnesses."

L = "grin_store::lmdb::"
S = L + "Store::"
B = L + "Batch::"


def run(c):
    import r9
    c.r9("C18")
    # --- closed writer sets
    c.r3("db-put", "re:heed::databases::database::Database::put$|heed::.*Database::put$", {B + "put", S + "set_migration_complete", S + "migrate_to_default_env"}, floor_sites=4)
    c.r3("db-delete", "re:heed::.*Database::delete$", {B + "delete"}, floor_sites=1)
    c.r3("db-clear", "re:heed::.*Database::clear$", {S + "clear"}, floor_sites=2)
    c.r3("write-txn", "re:heed::.*Env::write_txn$", {B + "new", S + "new", S + "clear", S + "migrate_to_default_env"}, floor_sites=5)
    c.r3("nested-write-txn", "re:heed::.*Env::nested_write_txn$", {B + "child"}, floor_sites=1)
    c.r3("txn-commit", "re:heed::txn::RwTxn::commit$", {B + "commit", S + "new", S + "clear", S + "migrate_to_default_env"}, floor_sites=5)
    c.r3("batch-new", B + "new", {S + "batch"}, floor_sites=1)
    c.r3("migration-only-at-open", S + "migrate_to_default_env", {S + "new"}, floor_sites=1)
    c.r3("clear-callers", S + "clear", {S + "new", S + "migrate_to_default_env"}, floor_sites=1)
    # writes use the batch's own write transaction
    c.r2_arg("put-in-write-txn", B + "put", "re:heed::.*Database::put$", 1, must=["arg0.write"])
    c.r2_arg("delete-in-write-txn", B + "delete", "re:heed::.*Database::delete$", 1, must=["arg0.write"])
    c.r2_arg("commit-own-txn", B + "commit", "re:heed::txn::RwTxn::commit$", 0, must=["arg0.write"])
    c.r2_arg("child-nested-in-parent", B + "child", "re:heed::.*Env::nested_write_txn$", 1, must=["arg0.write"])
    # --- visibility
    for m in ("get_with", "exists", "iter"):
        c.r1("batch-%s-reads-own-writes" % m, B + m, "re:heed::txn::RwTxn::nested_read_txn$", via=2, sink="return", called_only=True,
             desc="Batch::%s reads through a nested read txn of its own write txn (sees its own uncommitted writes)" % m)
        c.r2_arg("batch-%s-txn" % m, B + m, "re:heed::txn::RwTxn::nested_read_txn$", 0, must=["arg0.write"])
        c.never("batch-%s-no-fresh-txn" % m, B + m, None, "re:heed::.*Env::(read_txn|static_read_txn)$")
    for m, txn in (("get_ser", "read_txn"), ("exists", "read_txn"), ("iter", "static_read_txn")):
        c.r1("store-%s-fresh-read-txn" % m, S + m, "re:heed::.*Env::%s$" % txn, via=2, sink="return", called_only=True,
             desc="Store::%s reads through a fresh read transaction (committed state only)" % m)
        c.r1("store-%s-counts-tx" % m, S + m, S + "enter_tx", sink="re:heed::.*Env::%s$" % txn, via=2,
             desc="Store::%s registers with the open-transaction counter before opening the transaction" % m)
        c.never("store-%s-no-write-txn" % m, S + m, None, "re:heed::.*Env::(write_txn|nested_write_txn)$|heed::txn::RwTxn::nested_read_txn$")
    # the registration lives as long as the transaction: the TxCounter guard is still alive wherever the read transaction is used
    c.alive_at("store-get_ser-counter-spans-read", S + "get_ser", S + "enter_tx", S + "get_with",
               desc="Store::get_ser: the open-transaction registration (TxCounter) is alive while the read transaction is used (get_with)")
    c.alive_at("store-exists-counter-spans-read", S + "exists", S + "enter_tx", "re:heed::.*Database.*::get$",
               desc="Store::exists: the open-transaction registration (TxCounter) is alive while the read transaction is used (Database::get)")
    c.alive_at("store-iter-counter-moves-into-iterator", S + "iter", S + "enter_tx", L + "DatabaseIterator::new",
               desc="Store::iter: the open-transaction registration (TxCounter) is handed to the iterator that owns the read transaction")
    c.r1("batch-counts-tx", B + "new", S + "enter_tx", sink="re:heed::.*Env::write_txn$", via=2)
    # ... and the registration lives as long as the write transaction: the TxCounter is stored in the Batch that owns the RwTxn (a batch that
    # is open while another thread asks for a resize must be counted, or the map is resized under an open write transaction)
    c.r2_ret("batch-new-counter-moves-into-batch", B + "new", must=["call:Store::enter_tx", "re:^call:.*Env::write_txn$"],
             desc="Batch::new: the open-transaction registration (TxCounter) is stored in the returned Batch together with the write transaction")
    c.r1("batch-resize-check-first", S + "batch", S + "maybe_resize", sink=B + "new", via=2)
    # --- resize gate
    M = S + "maybe_resize"
    c.r3("resize-sites", "re:heed::.*Env::resize$", {M, S + "migrate_to_default_env"}, floor_sites=3)
    c.r1("resize-flag-set-first", M, S + "set_resizing", sink="re:heed::.*Env::resize$", via=2, desc="maybe_resize: resizing flag is set before the immediate resize")
    c.r2_arg("resize-flag-true", M, S + "set_resizing", 1, const=1, where=r"^arg0, 1$", floor=1)
    c.r1("resize-flag-before-spawn", M, S + "set_resizing", sink="re:std::thread::(functions::)?spawn$", via=2)
    c.r2("immediate-resize-only-with-zero-txs", M, ops={"Ne"}, lhs=["call:Store::open_txs_count"], rhs=["const:0"], fail_on=True, sink="re:heed::.*Env::resize$",
         desc="maybe_resize: the immediate resize is on the `open_txs_count() == 0` edge only")
    c.r1("single-checker", M, S + "start_resize_checking", sink="re:heed::.*Env::resize$", via=2, truth=True)
    # flags cleared after the immediate resize
    c.r1("immediate-clears-resizing", M, S + "set_resizing", start="re:heed::.*Env::resize$", sink="return", via=2)
    c.r1("immediate-clears-checking", M, S + "finish_resize_checking", start="re:heed::.*Env::resize$", sink="return", via=2)
    W = M + "@re:std::thread::(functions::)?spawn$"
    c.r2_edge("waiter-resizes-after-zero", W, [(r"^Eq\(Atomic::load\(.*\.open_txs_count, Ordering::\w+\{\}\), 0\)$", "true")], "re:heed::.*Env::resize$",
         desc="resize waiter thread: Env::resize only after the open-transaction count was observed to be zero")
    c.r1("waiter-clears-flags", W, "re:core::sync::atomic::Atomic(Bool)?::store$|atomic::AtomicBool::store$", start="re:heed::.*Env::resize$", sink="return", via=2)
    E = S + "enter_tx"
    c.r2_edge("enter-blocked-while-resizing", E, [(r"^Atomic::load\(.*\.resizing, Ordering::Acquire\{\}\)$", "false"), (r"^LocalKey::with\(", "true")],
              "re:core::sync::atomic::.*::fetch_add$|atomic::Atomic.*::fetch_add$", desc="enter_tx admits a new transaction only if !resizing or the thread already holds one (nested)")
    # the nested-transaction exemption and the per-thread counter are per environment (keyed by env_path)
    c.r2_arg("nested-exemption-per-env", E + "@re:thread::local::LocalKey.*::with$#1", "re:collections::hash::map::HashMap.*::get$", 1, must=["re:env_path$"],
             desc="enter_tx: the 'this thread already holds a transaction' exemption is looked up for this store's environment only")
    c.r2_arg("thread-count-per-env", E + "@re:thread::local::LocalKey.*::with$#2", "re:collections::hash::map::HashMap.*::entry$", 1, must=["re:env_path$"],
             desc="enter_tx: the per-thread open-transaction count is kept per environment")
    c.r6("lmdb-results", ["grin_store"], {
        "grin_store::lmdb::Store::new|Store::clear|1": "clearing an unused legacy database during migration",
        "grin_store::lmdb::Store::migrate_to_default_env|Sender::send|1": "progress notification channel",
        "grin_store::lmdb::Store::migrate_to_default_env|Sender::send|2": "progress notification channel",
        "grin_store::lmdb::Store::migrate_to_default_env|Sender::send|3": "progress notification channel",
    }, floor_checked=150)
    # --- type-level clauses (R8 compile-fail witnesses with compiling twins; `cargo check` only, nothing is executed)
    import witness
    witness.run(c, "C18")

