"""C03 — head is the most-work validated chain: who moves the head, under which guard, after which validations."""
CLAUSE = ("the body/header head is written only from a closed set of functions; on the block path only by pipe::update_head, "
          "which is control-dependent on a strict `>` total-difficulty comparison against the head read at entry and is preceded on "
          "every path by the successful known-check, PoW, header, block, extension (UTXO/sums/roots) and block-save steps; a non-winning "
          "extension is force-rolled-back.")
NOT_DECIDED = "order-independence (confluence) over delivery permutations, orphan-pool capacity behaviour, actual difficulty values."

P = "grin_chain::pipe::"
CH = "grin_chain::chain::"


def run(c):
    import r9
    c.r9("C03")
    # --- who may move the heads
    c.r3("head-writers", "grin_chain::store::Batch::save_body_head", {
        P + "update_head", CH + "Chain::reset_chain_head", CH + "Chain::reset_chain_head_to_genesis",
        CH + "Chain::txhashset_write", CH + "setup_head",
        "grin_chain::txhashset::desegmenter::Desegmenter::validate_complete_state"}, floor_sites=7)
    c.r3("update_head-callers", P + "update_head", {P + "process_block"}, floor_sites=1)
    c.r3("header-head-writers", "grin_chain::store::Batch::save_header_head",
         {P + "update_header_head", CH + "Chain::reset_chain_head", CH + "setup_head"}, floor_sites=3)
    c.r3("update_header_head-callers", P + "update_header_head", {P + "process_block_headers", P + "process_block_header"}, floor_sites=2)
    c.r3("add_block-callers", P + "add_block", {P + "process_block"}, floor_sites=1)
    c.r3("process_block-callers", P + "process_block", {CH + "Chain::process_block_single"}, floor_sites=1)
    # --- strict comparison
    c.r2_value("strictly-more-work", P + "has_more_work", ops={"Gt"},
               lhs=["call:BlockHeader::total_difficulty", "arg0"], rhs=["arg1.total_difficulty"])
    # --- head write is control dependent on has_more_work(b.header, head-at-entry) == true
    c.r2("head-guarded", P + "process_block", cond=r"^pipe::has_more_work\(arg0\.header, Batch::head\(arg1\.batch\)",
         fail_on=False, sink=P + "update_head", desc="process_block: update_head only on the true edge of has_more_work(b.header, head read at entry)")
    c.r2("rollback-unless-more-work", P + "process_block@txhashset::txhashset::extending", cond=r"^pipe::has_more_work\(.*header, Batch::head\(",
         fail_on=True, sink="grin_chain::txhashset::txhashset::Extension::force_rollback", dominate=False,
         desc="extension closure: force_rollback is on the false edge of has_more_work, ok-exit with commit only on the true edge")
    c.r1("rollback-or-more-work", P + "process_block@txhashset::txhashset::extending", "grin_chain::txhashset::txhashset::Extension::force_rollback",
         sink="ok", extra_cuts=_true_edges(c, P + "process_block@txhashset::txhashset::extending", r"^pipe::has_more_work\("),
         desc="extension closure: every ok exit either took has_more_work==true or called force_rollback")
    for h, fn in (("header", "process_block_header"), ("headers", "process_block_headers@txhashset::txhashset::header_extending")):
        c.r2("header-head-guarded-" + h, P + fn, cond=r"^pipe::has_more_work\(", fail_on=False, sink=P + "update_header_head",
             desc="%s: update_header_head only on the true edge of has_more_work" % fn)
    for h, fn in (("header", "process_block_header@txhashset::txhashset::header_extending"), ("headers", "process_block_headers@txhashset::txhashset::header_extending")):
        c.r1("header-rollback-or-more-work-" + h, P + fn, "grin_chain::txhashset::txhashset::HeaderExtension::force_rollback", sink="ok",
             extra_cuts=_true_edges(c, P + fn, r"^pipe::has_more_work\("),
             desc="%s: every ok exit either took has_more_work==true or called force_rollback" % fn)
    # --- head write after all validation steps
    c.r1_all("head-after-validation", P + "process_block",
             [P + "check_known", P + "validate_pow_only", P + "process_block_header", P + "validate_block",
              "grin_chain::txhashset::txhashset::extending", P + "add_block"], sink=P + "update_head", via=2)
    # the extension closure applies the block only after fork rewind + UTXO + sums
    c.r1_all("apply-after-checks", P + "process_block@txhashset::txhashset::extending",
             [P + "rewind_and_apply_fork", P + "verify_coinbase_maturity", P + "validate_utxo", P + "verify_block_sums"],
             sink=P + "apply_block_to_txhashset", via=2)
    c.r1("ok-after-apply", P + "process_block@txhashset::txhashset::extending", P + "apply_block_to_txhashset", sink="ok", via=2)
    # --- known-check gating and orphan processing
    CP = CH + "Chain::process_block"
    c.r2_edge("orphans-after-any-accept", CP, [(r"^Result::is_ok\(Chain::process_block_single\(", "true")], CH + "Chain::check_orphans",
              desc="Chain::process_block: check_orphans is gated by is_ok(process_block_single) only")
    key = c.getfn(CP)
    if key:
        from cfg import switch_conditions, render, reach
        f = c.F.fns[key]
        targets = {bi for bi, t in c.F.calls(key) if any(n.endswith("Chain::check_orphans") for n in t["names"])}
        extra = []
        for bi, e, arms, els in switch_conditions(f):
            txt = render(e)
            if txt.startswith("Result::is_ok(Chain::process_block_single("):
                continue
            outs = {t2 for _v, t2 in arms} | {els}
            if len(outs) > 1 and any(reach(f, [0], targets, [(bi, t2)]) is None for t2 in outs):
                extra.append(txt[:100])
        d = "Chain::process_block: orphans are re-checked after every accepted block (head change or not) - no further condition guards check_orphans"
        if not targets:
            c.lost("orphans-unconditional", "R2", key, d, "check_orphans call not found")
        elif extra:
            c.record("orphans-unconditional", "R2", key, d, "violation", [], ["check_orphans additionally depends on: %s" % extra], key_detail="orphans")
        else:
            c.record("orphans-unconditional", "R2", key, d, "hold", [])
    c.r1("header-first", P + "process_block_header", P + "validate_header", sink=P + "update_header_head", via=2)
    c.r1("header-store-after-validate", P + "process_block_header", P + "validate_header", sink=P + "add_block_header", via=2)


def _true_edges(c, fn, cond):
    key = c.getfn(fn)
    if key is None:
        return []
    return [(bi, t_true) for (bi, t_true, t_false, txt) in c.find_guard(key, (), cond=cond)]
