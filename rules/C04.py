"""C04 — only headers obeying height, time, version, difficulty and PoW rules pass."""
import json
import re
import r4

CLAUSE = ("the guard table of pipe::validate_header (operator, operand origins, error) with its single SKIP_POW bypass, its position before a header is "
          "stored, applied to the header MMR or made header head; the header-MMR root check before apply (also for re-applied fork headers); the "
          "read-time guards of untrusted headers; the retarget's min/clamp/damp funnels; SKIP_POW is never set and the PoW verifier slot only ever "
          "holds pow::verify_size in non-test code; totality of consensus::next_difficulty (no reachable panic-capable construct, release semantics).")
NOT_DECIDED = "numeric retarget values, real proof-of-work, the concrete version schedule."

P = "grin_chain::pipe::"
VH = P + "validate_header"
PREV = r"pipe::prev_header_store\(arg0, arg1\.batch\)"
SKIP = (r"^Options::contains\(arg1\.opts, const:Options::SKIP_POW", "true")
HX = "grin_chain::txhashset::txhashset::HeaderExtension::"
CO = "grin_core::consensus::"

TOTALITY_ALLOW = {
    "grin_core::consensus::clamp|DivisionByZero": (1, "clamp_factor is the constant CLAMP_FACTOR (2) at both call sites (rule clamp-const)"),
    "grin_core::consensus::damp|DivisionByZero": (1, "damp_factor is the constant DMA_DAMP_FACTOR / AR_SCALE_DAMP_FACTOR at both call sites (rule damp-const)"),
    "grin_core::consensus::next_dma_difficulty|DivisionByZero": (1, "adj_ts = clamp(..) >= BLOCK_TIME_WINDOW / CLAMP_FACTOR > 0"),
    "grin_core::consensus::next_dma_difficulty|Index::index": (3, "difficulty_data_to_vector pads every non-empty window to DMA_WINDOW + 1 entries"),
    "grin_core::consensus::next_wtema_difficulty|DivisionByZero": (1, "WTEMA_HALF_LIFE - BLOCK_TIME_SEC + last_block_time with WTEMA_HALF_LIFE > BLOCK_TIME_SEC"),
    "grin_core::global::get_chain_type::{closure#0}|panicking::panic_fmt": (1, "configuration precondition: chain type initialised at start-up"),
    "grin_util::OneTime::borrow|Option::expect": (1, "configuration precondition: one-time globals initialised at start-up"),
}


def run(c):
    import r9
    c.r9("C04")
    # --- validation precedes any use of the header
    c.r1("validate-before-store", P + "process_block_header", VH, sink=P + "add_block_header", via=2)
    c.r1("validate-before-extending", P + "process_block_header", VH, sink="grin_chain::txhashset::txhashset::header_extending", via=2)
    c.r1("validate-before-head", P + "process_block_header", VH, sink=P + "update_header_head", via=2)
    c.loop("headers-validate-each", P + "process_block_headers", VH, over=r"arg0")
    c.r1("headers-validate-before-store", P + "process_block_headers", VH, sink=P + "add_block_header", via=2)
    c.r3("validate_header-callers", VH, {P + "process_block_header", P + "process_block_headers"}, floor_sites=2)
    c.r3("add_block_header-callers", P + "add_block_header", {P + "process_block_header", P + "process_block_headers"}, floor_sites=2)
    # --- guard table of validate_header
    c.r2("ctx-rules", VH, cond=r"^discr\(pipe::validate_header_ctx\(arg0, arg1\)\)$", fail_on=True, desc="validate_header applies the context (denylist) rules") if False else \
        c.r1("ctx-rules", VH, P + "validate_header_ctx", via=2)
    c.r1("prev-header", VH, "re:store::Batch::get_previous_header$", via=2, desc="validate_header: the previous header must be known (orphan otherwise)")
    c.r2("height", VH, ops={"Ne"}, lhs=["arg0.height"], rhs=["re:^call:(pipe::prev_header_store|Batch::get_previous_header)$", "op:AddWithOverflow", "const:1", "re:\\.height$"], err="InvalidBlockHeight")
    c.r2("version", VH, cond=r"^consensus::valid_header_version\(arg0\.height, arg0\.version\)$", fail_on=False, err="InvalidBlockVersion")
    c.r2("timestamp", VH, ops={"Le"}, lhs=["arg0.timestamp"], rhs=["re:^call:(pipe::prev_header_store|Batch::get_previous_header)$", "re:\\.timestamp$"], err="InvalidBlockTime")
    c.r2("mmr-outputs", VH, ops={"Eq"}, lhs=["call:BlockHeader::output_mmr_count", "call:num::saturating_sub", "arg0"], rhs=["const:0"], err="InvalidMMRSize")
    c.r2("mmr-kernels", VH, ops={"Eq"}, lhs=["call:BlockHeader::kernel_mmr_count", "call:num::saturating_sub", "arg0"], rhs=["const:0"], err="InvalidMMRSize")
    c.r2("weight", VH, ops={"Gt"}, lhs=["call:TransactionBody::weight_by_iok"], rhs=["call:global::max_block_weight"], err="TooHeavy")
    c.r1("pow", VH, P + "validate_pow_only", via=2, extra_cuts=c.true_edges(VH, SKIP[0]), desc="validate_header: ok => validate_pow_only, only bypass SKIP_POW")
    c.r2("total-difficulty-increases", VH, ops={"Le"}, lhs=["call:BlockHeader::total_difficulty", "arg0"], rhs=["call:BlockHeader::total_difficulty", "re:^call:(pipe::prev_header_store|Batch::get_previous_header)$"],
         err="DifficultyTooLow", bypass=[SKIP])
    c.r2("pow-reaches-target", VH, ops={"Lt"}, lhs=["call:ProofOfWork::to_difficulty", "arg0.pow", "arg0.height"], rhs=["call:Sub::sub", "call:BlockHeader::total_difficulty"],
         err="DifficultyTooLow", bypass=[SKIP])
    c.r2("network-difficulty", VH, ops={"Ne"}, lhs=["call:Sub::sub", "call:BlockHeader::total_difficulty"],
         rhs=["call:consensus::next_difficulty", "arg0.height", "call:DifficultyIter::from_batch", "call:Hashed::hash", "re:^call:(pipe::prev_header_store|Batch::get_previous_header)$", "re:\\.difficulty$"],
         err="WrongTotalDifficulty", bypass=[SKIP])
    c.r2("secondary-scaling", VH, ops={"Ne"}, lhs=["arg0.pow.secondary_scaling"], rhs=["call:consensus::next_difficulty", "re:\\.secondary_scaling$"], err="InvalidScaling",
         bypass=[SKIP, (r"^PartialOrd::lt\(arg0\.version, ", "false")])
    skips = c.true_edges(VH, SKIP[0])
    if len(skips) != 1:
        c.lost("single-skip", "R2", VH, "validate_header has exactly one SKIP_POW test", "%d found" % len(skips))
    # --- validate_pow_only
    VP = P + "validate_pow_only"
    c.r2("pow-kind", VP, cond=r"^ProofOfWork::is_secondary\(arg0\.pow\)$", fail_on=False, err="LowEdgebits", bypass=[SKIP[:1] + ("true",), (r"^ProofOfWork::is_primary\(arg0\.pow\)$", "true")]
         if False else [(r"^Options::contains\(arg1\.opts, const:Options::SKIP_POW", "true"), (r"^ProofOfWork::is_primary\(arg0\.pow\)$", "true")])
    c.r2("pow-verified", VP, cond=r"^Result::is_err\(indirect\(arg0\)\)$", fail_on=True, err="InvalidPow", bypass=[(r"^Options::contains\(arg1\.opts, const:Options::SKIP_POW", "true")])
    # --- SKIP_POW is never constructed; the verifier slot only holds pow::verify_size
    users = sorted(k for k, fn in c.F.fns.items() if "Options::SKIP_POW" in json.dumps(fn["blocks"]))
    allowed = {VH, VP, "grin_chain::types::Options::all", "<grin_chain::types::Options as core::fmt::Debug>::fmt",
               "<grin_chain::types::Options as <grin_chain::types::Options as core::fmt::Debug>::fmt::__BitFlags>::SKIP_POW"}
    extra = [u for u in users if u not in allowed]
    if extra:
        for u in extra:
            c.record("skip-pow-unused", "R3", u, "Options::SKIP_POW is referenced only by the two tests of the flag", "violation", [],
                     ["%s references Options::SKIP_POW" % u], key_detail="SKIP_POW")
    elif len(users) < 2:
        c.lost("skip-pow-unused", "R3", None, "Options::SKIP_POW is referenced only by the two tests of the flag", "only %d users found" % len(users))
    else:
        c.record("skip-pow-unused", "R3", None, "Options::SKIP_POW is referenced only by the two tests of the flag (%d functions)" % len(users), "hold", users[:4])
    reif = []
    for k, fn in c.F.fns.items():
        for b in fn["blocks"]:
            for st in b["st"]:
                if st["k"] == "assign" and st["rv"]["r"] == "cast" and "ReifyFnPointer" in st["rv"]["kind"] and \
                        re.search(r"fn\(&'a grin_core::core::block::BlockHeader\) -> core::result::Result<\(\), grin_core::pow::error::Error>$", st["rv"]["to"]):
                    reif.append((k, st["rv"]["a"].get("v", {}).get("fn")))
    bad = [r for r in reif if r[1] != "grin_core::pow::verify_size"]
    if bad:
        for k, f in bad:
            c.record("verifier-slot", "R3", k, "the PoW verifier fn-pointer slot only ever holds pow::verify_size", "violation", [], ["%s stores %s" % (k, f)], key_detail="verifier")
    elif not reif:
        c.lost("verifier-slot", "R3", None, "the PoW verifier fn-pointer slot only ever holds pow::verify_size", "no reification found")
    else:
        c.record("verifier-slot", "R3", None, "the PoW verifier fn-pointer slot only ever holds pow::verify_size (%d reifications)" % len(reif), "hold", [r[0] for r in reif])
    c.r2_arg("verify_size-ctx", "grin_core::pow::verify_size", "grin_core::global::create_pow_context", 1, must=["re:^call:ProofOfWork::edge_bits$", "arg0.pow"])
    c.r1("verify_size-verifies", "grin_core::pow::verify_size", "grin_core::pow::types::PoWContext::verify", via=2)
    c.r1("verify_size-sets-header", "grin_core::pow::verify_size", "grin_core::pow::types::PoWContext::set_header_nonce", sink="grin_core::pow::types::PoWContext::verify", via=2)
    # --- header MMR root check before apply
    CL = P + "process_block_header@txhashset::txhashset::header_extending"
    c.r1("root-before-apply", CL, HX + "validate_root", sink=HX + "apply_header", via=2)
    c.r1("fork-before-root", CL, P + "rewind_and_apply_header_fork", sink=HX + "validate_root", via=2)
    c.loop("fork-root-before-apply", P + "rewind_and_apply_header_fork", HX + "validate_root", over=r"Vec::new")
    c.r1("fork-root-before-apply-order", P + "rewind_and_apply_header_fork", HX + "validate_root", sink=HX + "apply_header", via=2)
    c.r2("root-matches", HX + "validate_root", ops={"Ne"}, lhs=["call:HeaderExtension::root"], rhs=["arg1.prev_root"], err="InvalidRoot", bypass=[(r"^Eq\(arg1\.height, 0\)$", "true")])
    # --- untrusted header read-time guards
    UH = "<grin_core::core::block::UntrustedBlockHeader as grin_core::ser::Readable>::read"
    c.r2("ut-future-time", UH, ops={"Gt"}, lhs=["re:\\.timestamp$"], rhs=["call:Utc::now", "call:global::get_future_time_limit"], err="CorruptedData")
    c.r2("ut-version", UH, cond=r"^consensus::valid_header_version\(.*\.height, .*\.version\)$", fail_on=False, err="InvalidBlockVersion")
    c.r2("ut-edge-bits", UH, cond=r"^ProofOfWork::is_secondary\(", fail_on=False, err="CorruptedData", bypass=[(r"^ProofOfWork::is_primary\(", "true")])
    c.r1("ut-pow", UH, "grin_core::pow::verify_size", via=2)
    c.r2("ut-weight", UH, ops={"Gt"}, lhs=["call:TransactionBody::weight_by_iok"], rhs=["call:global::max_block_weight", "op:MulWithOverflow", "op:AddWithOverflow"], err="CorruptedData")
    # --- retarget funnels
    c.r2_ret("dma-min", CO + "next_dma_difficulty", must=["call:cmp::max", "re:^item:consensus::MIN_DMA_DIFFICULTY=", "call:consensus::clamp", "call:consensus::damp"])
    c.r2_ret("wtema-min", CO + "next_wtema_difficulty", must=["call:cmp::max", "call:Difficulty::min_wtema"])
    c.r2_ret("ar-scale-min", CO + "secondary_pow_scaling", must=["call:cmp::max", "re:^item:consensus::MIN_AR_SCALE=", "call:consensus::clamp", "call:consensus::damp"])
    c.r2_arg("damp-const", CO + "next_dma_difficulty", CO + "damp", 2, must=["re:^item:consensus::DMA_DAMP_FACTOR="])
    c.r2_arg("damp-const-ar", CO + "secondary_pow_scaling", CO + "damp", 2, must=["re:^item:consensus::AR_SCALE_DAMP_FACTOR="])
    c.r2_arg("clamp-const", CO + "next_dma_difficulty", CO + "clamp", 2, must=["re:^item:consensus::CLAMP_FACTOR="])
    c.r2_arg("clamp-const-ar", CO + "secondary_pow_scaling", CO + "clamp", 2, must=["re:^item:consensus::CLAMP_FACTOR="])
    c.r3("damp-callers", CO + "damp", {CO + "next_dma_difficulty", CO + "secondary_pow_scaling"}, floor_sites=2, crates=["grin_core", "grin_chain", "grin_servers", "grin_pool", "grin_p2p", "grin_api", "grin"])
    c.r3("clamp-callers", CO + "clamp", {CO + "next_dma_difficulty", CO + "secondary_pow_scaling"}, floor_sites=2)
    c.r2("era-switch", CO + "next_difficulty", cond=r"^PartialOrd::lt\(consensus::header_version\(arg0\), ", fail_on=True, sink=CO + "next_wtema_difficulty", dominate=False,
         desc="next_difficulty: DMA before HeaderVersion(5), WTEMA from it")
    # --- totality of the retarget (release arithmetic; the window iterator itself is the input and out of scope)
    c.r4("totality", "grin_chain", "re:consensus::next_difficulty$", {"panic": r4.PANIC_CALL}, TOTALITY_ALLOW, stop=r"re:DifficultyIter.* as .*Iterator>::next$",
         floor_roots=1, floor_reach=25, auto=r4.auto_discharge,
         desc="consensus::next_difficulty is total: no panic-capable construct reachable for any window (including windows shorter than required)")
