"""C14 — the transaction pool always holds a jointly valid, fee-paying, mineable set (admission-funnel clause)."""
import re
from cfg import reach, return_blocks, path_locs, render
from facts import loc, fn_loc

CLAUSE = ("a pool only grows in Pool::add_to_pool and only after the aggregate of the whole pool plus the new transaction validated (standalone "
          "validation, validation against the chain's UTXO set, block sums); no other function or crate mutates the entries; on the public entry "
          "point every admission is preceded by the kernel-variant, minimum-fee, standalone (tx-weight-limited) validation, lock-height and "
          "coinbase-maturity checks, the only tolerated refusal of is_acceptable being OverCapacity for non-stem transactions, and is_acceptable "
          "tests the fee on every path; block reconciliation re-adds through the same funnel; the mineable set is built under the configured weight "
          "limit and the block template is validated and applied to a read-only extension before it is handed out.")
NOT_DECIDED = "joint validity after arbitrary interleavings of submissions, blocks, reorgs and evictions; that the chain accepts the mined block."

PL = "grin_pool::pool::Pool::"
TP = "grin_pool::transaction_pool::TransactionPool::"
T = "grin_core::core::transaction::"


def run(c):
    import r9
    c.r9("C14")
    # --- who may touch Pool::entries
    c.r3_field("entries-writers", "grin_pool::pool::Pool", "entries", {
        PL + "add_to_pool": {"Vec::push"},
        PL + "reconcile": {"Vec::clear"},
        PL + "evict_transaction": {"Vec::retain"},
        PL + "reconcile_block": {"Vec::retain"},
    }, floor=4)
    A = PL + "add_to_pool"
    c.r1("push-after-aggregate-validation", A, PL + "validate_raw_tx", sink="re:alloc::vec::Vec::push$", sink_where=r"^arg0\.entries", via=2,
         desc="Pool::add_to_pool: the entry is pushed only after validate_raw_tx on the aggregate succeeded")
    c.r2_arg("aggregate-includes-pool", A, PL + "validate_raw_tx", 1, must=["call:transaction::aggregate", "call:Pool::all_transactions", "arg1.tx"],
             desc="the validated transaction is the aggregate of all pool transactions plus the new one (or the new one alone for an empty pool)")
    c.r2("no-duplicate", A, cond=r"^slice::contains\(Pool::all_transactions\(arg0\), arg1\.tx\)$", fail_on=True, err="DuplicateTx", sink="re:alloc::vec::Vec::push$")
    V = PL + "validate_raw_tx"
    c.r1_all("raw-validation", V, [T + "Transaction::validate", "grin_pool::types::BlockChain::validate_tx", PL + "apply_tx_to_block_sums"], via=2)
    c.r1("sums-checked", PL + "apply_tx_to_block_sums", "grin_core::core::committed::Committed::verify_kernel_sums", via=2)
    c.r3("add_to_pool-callers", PL + "add_to_pool", {TP + "add_to_txpool", TP + "add_to_stempool", PL + "reconcile"}, floor_sites=3)
    c.r3("add_to_txpool-callers", TP + "add_to_txpool", {TP + "add_to_pool", TP + "reconcile_reorg_cache"}, floor_sites=2)
    c.r3("add_to_stempool-callers", TP + "add_to_stempool", {TP + "add_to_pool"}, floor_sites=1)
    # --- public admission funnel
    P = TP + "add_to_pool"
    for sink in ("add_to_stempool", "add_to_txpool"):
        c.r1("admit-%s-kernel-variants" % sink, P, TP + "verify_kernel_variants", sink=TP + sink, via=2)
        c.r1("admit-%s-standalone" % sink, P, T + "Transaction::validate", sink=TP + sink, via=2)
        c.r1("admit-%s-acceptable" % sink, P, TP + "is_acceptable", sink=TP + sink, via=2, called_only=True)
        c.r1("admit-%s-v2" % sink, P, TP + "convert_tx_v2", sink=TP + sink, via=2)
    c.r2_arg("standalone-weight-limit", P, T + "Transaction::validate", 1, text=r"^Weighting::AsTransaction\{\}$", desc="standalone validation uses Weighting::AsTransaction")
    # the only ways past is_acceptable: it returned Ok, or (non-stem) it returned exactly OverCapacity
    key = c.getfn(P)
    if key:
        f = c.F.fns[key]
        ok_edges = c.false_edges(P, r"^Result::is_err\(TransactionPool::is_acceptable\(")
        over_edges = c.true_edges(P, r"^PartialEq::eq\(Result::err\(TransactionPool::is_acceptable\(")
        if not ok_edges and not over_edges:
            # the same two gates spelled as one `match` on the verdict: the `Ok` arm of the switch on the result, and the `OverCapacity` arm of
            # the switch on the error it carries (variant indices taken from the enum's definition, never from text)
            from cfg import render as _render
            pe = [v for k_, v in c.F.adts.items() if k_.endswith("grin_pool::types::PoolError")]
            over_idx = next((i for i, x in enumerate(pe[0]["variants"]) if x["name"] == "OverCapacity"), None) if pe else None
            for bi, e, arms, els in c.guards(key):
                txt = _render(e)
                if txt.startswith("discr(TransactionPool::is_acceptable(") and txt.endswith("))") and ".@Err" not in txt[-12:] and ".@Ok" not in txt[-12:]:
                    ok_edges += [(bi, t2) for v, t2 in arms if str(v) == "0"]
                elif re.match(r"^discr\(TransactionPool::is_acceptable\(.*\)\.@Err\.0\)$", txt) and over_idx is not None:
                    over_edges += [(bi, t2) for v, t2 in arms if str(v) == str(over_idx)]
        stem_gate = c.false_edges(P, r"^arg3$")
        sinks = {bi for bi, t in c.F.calls(key) if any(n.endswith("TransactionPool::add_to_txpool") or n.endswith("TransactionPool::add_to_stempool") for n in t["names"])}
        d = "add_to_pool: admission only if is_acceptable returned Ok, or returned OverCapacity for a non-stem transaction"
        if not (1 <= len(ok_edges) <= 2) or len(over_edges) != 1 or not sinks:
            c.lost("acceptability-gate", "R2", key, d, "gates found: %d ok, %d over-capacity, %d sinks" % (len(ok_edges), len(over_edges), len(sinks)))
        else:
            p = reach(f, [0], sinks, set(ok_edges + over_edges))
            if p is None:
                c.record("acceptability-gate", "R2", key, d, "hold", [loc(f["blocks"][ok_edges[0][0]]["term"]), loc(f["blocks"][over_edges[0][0]]["term"])])
            else:
                c.record("acceptability-gate", "R2", key, d, "violation", [], ["path:"] + path_locs(f, p), key_detail="gate")
            # the OverCapacity tolerance is only reachable for non-stem transactions
            ob = over_edges[0][0]
            p2 = reach(f, [0], {ob}, set(stem_gate))
            d2 = "add_to_pool: the OverCapacity tolerance is evaluated only for non-stem transactions"
            if p2 is None and stem_gate:
                c.record("over-capacity-only-fluff", "R2", key, d2, "hold", [loc(f["blocks"][ob]["term"])])
            else:
                c.record("over-capacity-only-fluff", "R2", key, d2, "violation", [], ["path:"] + (path_locs(f, p2) if p2 else ["stem test not found"]), key_detail="stem-gate")
    c.r2_arg("over-capacity-constant", P, "re:core::cmp::PartialEq::eq$", 1, must=["re:^item:"], where=r"is_acceptable", floor=1) if False else None
    # --- is_acceptable: the fee test is on every path (a capacity refusal must not pre-empt it)
    IA = TP + "is_acceptable"
    c.r2("min-fee", IA, ops={"Lt"}, lhs=["call:Transaction::shifted_fee", "arg1"], rhs=["call:Transaction::accept_fee", "arg1"], err="LowFeeTransaction")
    key = c.getfn(IA)
    if key:
        f = c.F.fns[key]
        gs = c.find_guard(key, {"Lt"}, ["call:Transaction::shifted_fee"], ["call:Transaction::accept_fee"])
        d = "is_acceptable: every exit (also Err(OverCapacity), which add_to_pool tolerates) has evaluated the minimum-fee test"
        if len(gs) != 1:
            c.lost("fee-on-every-path", "R2", key, d, "%d fee guards" % len(gs))
        else:
            gb = gs[0][0]
            p = reach(f, [0], return_blocks(f), (), {gb})
            if p is None:
                c.record("fee-on-every-path", "R2", key, d, "hold", [loc(f["blocks"][gb]["term"])])
            else:
                c.record("fee-on-every-path", "R2", key, d, "violation", [loc(f["blocks"][gb]["term"])],
                         ["exit reached without evaluating the fee test (a below-minimum-fee transaction is then admitted when the pool is at capacity):"] + path_locs(f, p),
                         key_detail="fee-bypass")
    # --- reconciliation goes through the same funnel
    c.loop("reconcile-readds", PL + "reconcile", PL + "add_to_pool", over=r"Clone::clone\(arg0\.entries\)|arg0\.entries", called_only=True,
           desc="Pool::reconcile re-adds every surviving entry through add_to_pool (a failing entry is dropped)")
    c.r1("reconcile-clears-first", PL + "reconcile", "re:alloc::vec::Vec::clear$", sink=PL + "add_to_pool", via=2)
    R = TP + "reconcile_block"
    c.r1("reconcile-block-txpool", R, PL + "reconcile", require_where=r"^arg0\.txpool", via=2,
         desc="TransactionPool::reconcile_block: the txpool is fully re-validated against the new head on every path (not only when the quick filter removed something)")
    c.r1("reconcile-block-stempool", R, PL + "reconcile", require_where=r"^arg0\.stempool", via=2)
    c.r1("reconcile-block-order", R, PL + "reconcile_block", sink=PL + "reconcile", via=2)
    c.r2_arg("stempool-reconciled-with-txpool", R, PL + "reconcile", 1, must=["call:Pool::all_transactions_aggregate", "arg0.txpool"], where=r"^arg0\.stempool", floor=1)
    # --- mineable set and block template
    M = PL + "prepare_mineable_transactions"
    c.r1("mineable-validated", M, PL + "validate_raw_txs", via=2)
    c.r2_arg("mineable-weight-buckets", M, PL + "bucket_transactions", 1, must=["arg1"], desc="buckets are built under Weighting::AsLimitedTransaction(max_weight)")
    c.r2_arg("mineable-weight-validate", M, PL + "validate_raw_txs", 4, must=["arg1"])
    c.r2_arg("mineable-config-weight", TP + "prepare_mineable_transactions", M, 1, must=["arg0.config.mineable_max_weight"])
    BB = "grin_servers::mining::mine_block::build_block"
    c.r1_all("template", BB, ["grin_core::core::block::Block::from_reward", "grin_core::core::block::Block::validate", "grin_chain::chain::Chain::set_txhashset_roots"], via=2)
    c.r2_arg("template-offset", BB, "grin_core::core::block::Block::validate", 1, must=["call:Chain::head_header", "re:total_kernel_offset$"])
    # --- result discipline in the pool crate: the only discarded Results are the two tolerated re-add failures
    c.r6("pool-results", ["grin_pool"], {
        "grin_pool::pool::Pool::reconcile|Pool::add_to_pool|1": "reconcile drops entries that no longer validate against the new chain state",
        "grin_pool::transaction_pool::TransactionPool::reconcile_reorg_cache|TransactionPool::add_to_txpool|1": "re-adding reorged-out transactions is best effort",
    }, floor_checked=60)

