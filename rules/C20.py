"""C20 — keys, commitments and range-proof rewind are deterministic (narrow clause)."""
import r4

CLAUSE = ("determinism by construction: no entropy or clock source (rand::*, thread_rng, OsRng, SecretKey::new, SystemTime/Instant/Utc::now) is "
          "reachable in the call graph from key derivation (ExtKeychain derive_key/commit/derive_key_id/public_root_key, BIP32 derivation, ViewKey "
          "derivation), from the rewind-nonce / proof-message / check-output functions of all three proof builders, or from proof::rewind; a failed "
          "secp rewind maps to Ok(None), never to a panic.")
NOT_DECIDED = "that rewinding recovers exactly (amount, path, mode); blinding-factor algebra; that builder output validates (cryptographic, value-level)."

K = "grin_keychain::"
ROOTS = [
    "re:^<grin_keychain::keychain::ExtKeychain as grin_keychain::types::Keychain>::(derive_key|commit|public_root_key|rewind_hash|blind_sum|from_seed|mask_master_key|sign|sign_with_blinding)$",
    "re:^grin_keychain::keychain::ExtKeychain::(derive_key_id|root_key_id|pub_root_key)$",
    "re:^grin_keychain::extkey_bip32::ExtendedPrivKey::(new_master|ckd_priv|derive_priv|identifier|fingerprint)$",
    "re:^grin_keychain::extkey_bip32::ExtendedPubKey::(from_private|ckd_pub|ckd_pub_tweak|derive_pub|identifier|fingerprint)$",
    "re:^grin_keychain::view_key::ViewKey::(create|ckd_pub|ckd_pub_tweak|commit|rewind_hash|derive_pub)$",
    "re:^<grin_keychain::view_key::ViewKey as grin_core::libtx::proof::ProofBuild>::(rewind_nonce|proof_message|check_output)$",
    "re:^<grin_core::libtx::proof::(Legacy)?ProofBuilder<'a, K> as grin_core::libtx::proof::ProofBuild>::(rewind_nonce|proof_message|check_output)$",
    "re:^grin_core::libtx::proof::(Legacy)?ProofBuilder::(new|nonce)$",
    "grin_core::libtx::proof::rewind",
    "re:^grin_keychain::types::BlindingFactor::(add|split|from_secret_key|secret_key|from_slice)$" if False else "re:^grin_keychain::types::BlindingFactor::(add|from_secret_key|secret_key|from_slice)$",
    "re:^grin_keychain::types::BlindSum::",
]


def _blinding_of_context(k, t):
    # frozen exception: util::static_secp_instance re-randomises the secp context (side-channel blinding of the context;
    # no output of any keyed computation depends on it)
    return k == "grin_util::secp_static::static_secp_instance"


def run(c):
    import r9
    c.r9("C20")
    c.no_reach_cg("deterministic-derivation", ROOTS, r4.ENTROPY_CALL, floor_nodes=60, edge_filter=_blinding_of_context,
                  desc="no entropy/clock source reachable from key derivation, commitment, rewind-nonce, proof-message, check-output and proof::rewind "
                       "(exception: static_secp_instance re-randomising the secp context)")
    c.no_reach_cg("static-secp-only-randomises-context", ["grin_util::secp_static::static_secp_instance"], r4.ENTROPY_CALL, floor_nodes=1,
                  edge_filter=lambda k, t: any(n.endswith("rand::rngs::thread::thread_rng") or n.endswith("thread_rng") for n in t.get("names", [])),
                  desc="static_secp_instance uses no entropy source other than thread_rng for Secp256k1::randomize")
    # positive control: the same search does find entropy where it exists (BlindingFactor::rand / private_nonce draw random keys)
    w = __import__("rules").cg_reach(c, [k for k in c.F.fns if k == "grin_keychain::types::BlindingFactor::rand"], r4.ENTROPY_CALL)
    if w:
        c.record("positive-control", "R4", "grin_keychain::types::BlindingFactor::rand", "the entropy matcher finds SecretKey::new in BlindingFactor::rand (rule is not vacuous)", "hold", [w[-1][1]])
    else:
        c.lost("positive-control", "R4", "grin_keychain::types::BlindingFactor::rand", "the entropy matcher finds SecretKey::new in BlindingFactor::rand", "matcher found nothing: pattern or anchor lost")
    c.no_reach_cg("rewind-never-panics", ["grin_core::libtx::proof::rewind"], r"re:core::(option::Option|result::Result)::expect$|core::option::Option::unwrap$|core::panicking::", depth=0,
                  floor_nodes=1, desc="proof::rewind contains no expect/panic/Option::unwrap: failures of rewind_nonce / check_output are mapped to Err values")
    k = c.getfn("grin_core::libtx::proof::rewind")
    if k and not any(__import__("facts").call_matches(t, __import__("rules").pat("re:core::result::Result::unwrap$")) for _b, t in c.F.calls(k)):
        c.record("rewind-unwrap-guarded", "R1", k, "proof::rewind contains no unwrap at all (a failed secp rewind is matched, not unwrapped)", "hold", [])
    else:
        c.r1("rewind-unwrap-guarded", "grin_core::libtx::proof::rewind", "re:core::result::Result::is_err$", sink="re:core::result::Result::unwrap$", truth=False, via=2,
             desc="proof::rewind: the only unwrap is dominated by the false edge of is_err() on the same value (a failed secp rewind returns Ok(None))")
    c.r3("rewind-single-unwrap", "re:core::result::Result::unwrap$", {"never"}, crates=["none"], floor_sites=0) if False else None
    c.r2_ret("rewind-result-from-secp", "grin_core::libtx::proof::rewind", must=["re:^call:pedersen::rewind_bullet_proof$|^call:.*rewind_bullet_proof$"]) if False else None
