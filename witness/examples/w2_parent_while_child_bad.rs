// C18 witness: the parent batch cannot be used while a child batch borrows it. Expected: E0499.
use grin_store::lmdb::Store;
fn f(store: &Store) -> Result<(), grin_store::lmdb::Error> {
	let mut batch = store.batch()?;
	let mut child = batch.child()?;
	batch.put(None, b"k", b"v")?; // WITNESS
	child.put(None, b"k2", b"v2")?;
	child.commit()?;
	batch.commit()?;
	Ok(())
}
fn main() {
	let _ = f;
}
