// C17 witness: the txhashset cannot be mutated through a read guard. Expected: E0596.
use grin_chain::Chain;
fn f(chain: &Chain) {
	let txhashset = chain.txhashset();
	let guard = txhashset.read();
	guard.release_backend_files(); // WITNESS (&mut self method through a read guard)
}
fn main() {
	let _ = f;
}
