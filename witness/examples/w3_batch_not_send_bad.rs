// C18 witness: a batch (an LMDB write transaction with a per-thread counter) cannot be sent to another thread. Expected: E0277.
use grin_store::lmdb::Store;
fn f(store: &'static Store) {
	let batch = store.batch().unwrap();
	std::thread::spawn(move || { // WITNESS
		let _ = batch.commit();
	});
}
fn main() {
	let _ = f;
}
