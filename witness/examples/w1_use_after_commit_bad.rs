// C18 witness: a batch cannot be used after commit (commit consumes it). Expected: E0382 (use of moved value).
use grin_store::lmdb::Store;
fn f(store: &Store) -> Result<(), grin_store::lmdb::Error> {
	let mut batch = store.batch()?;
	batch.put(None, b"k", b"v")?;
	batch.commit()?;
	batch.put(None, b"k2", b"v2")?; // WITNESS
	Ok(())
}
fn main() {
	let _ = f;
}
