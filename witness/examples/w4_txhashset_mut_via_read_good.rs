use grin_chain::Chain;
fn f(chain: &Chain) {
	let txhashset = chain.txhashset();
	let mut guard = txhashset.write();
	guard.release_backend_files();
}
fn main() {
	let _ = f;
}
