use grin_store::lmdb::Store;
fn f(store: &Store) -> Result<(), grin_store::lmdb::Error> {
	let mut batch = store.batch()?;
	let mut child = batch.child()?;
	child.put(None, b"k2", b"v2")?;
	child.commit()?;
	batch.put(None, b"k", b"v")?;
	batch.commit()?;
	Ok(())
}
fn main() {
	let _ = f;
}
