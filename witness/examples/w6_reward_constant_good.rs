// C01 constant witness: the block subsidy is 60 grin.
const _: () = assert!(grin_core::consensus::REWARD == 60 * 1_000_000_000);
fn main() {}
