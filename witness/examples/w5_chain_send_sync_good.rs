// C17 positive witness: Chain is shared between threads.
use grin_chain::Chain;
fn assert_send_sync<T: Send + Sync>() {}
fn main() {
	assert_send_sync::<Chain>();
}
