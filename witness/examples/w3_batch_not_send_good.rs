use grin_store::lmdb::Store;
fn f(store: &'static Store) {
	std::thread::spawn(move || {
		let batch = store.batch().unwrap();
		let _ = batch.commit();
	});
}
fn main() {
	let _ = f;
}
