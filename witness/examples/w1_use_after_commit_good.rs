// compiling twin of w1: identical except for the offending line
use grin_store::lmdb::Store;
fn f(store: &Store) -> Result<(), grin_store::lmdb::Error> {
	let mut batch = store.batch()?;
	batch.put(None, b"k", b"v")?;
	batch.put(None, b"k2", b"v2")?;
	batch.commit()?;
	Ok(())
}
fn main() {
	let _ = f;
}
