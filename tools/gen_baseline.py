#!/usr/bin/env python3
"""Regenerates baseline/Cxx.json (confirmed-instance summaries) from /repo's current tree. Run only on a tree whose checks all hold;
the result is reviewed and committed. usage: tools/gen_baseline.py [Cxx ...]"""
import json, os, sys
V = os.path.dirname(os.path.dirname(os.path.abspath(__file__)))
sys.path.insert(0, os.path.join(V, "engine", "grinlint"))
import extract
from facts import Facts
import r9
F = Facts(extract.extract()[0])
json.dump(sorted(k for k, f in F.fns.items() if f["kind"] != "Closure"), open(os.path.join(V, "baseline", "functions.json"), "w"), indent=0)
props = {json.loads(l)["id"]: json.loads(l) for l in open(os.path.join(V, "properties.jsonl"))}
claimed = [p for p in sorted(props) if os.path.exists(os.path.join(V, "rules", p + ".py"))]
named_by = {p: r9.scope(F, props[p], want_named=True)[1] for p in claimed}
for pid in (sys.argv[1:] or claimed):
    if pid not in claimed:
        continue
    elsewhere = set().union(*[named_by[q] for q in claimed if q != pid])
    b = r9.generate(F, props[pid], elsewhere)
    json.dump(b, open(r9.baseline_path(pid), "w"), indent=1, sort_keys=True)
    print(pid, len(b), "functions", sum(len(x["must"]) for x in b.values()), "must", sum(len(x["order"]) for x in b.values()), "order",
          sum(len(v) for x in b.values() for v in x["args"].values()), "sink calls")
