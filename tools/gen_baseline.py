#!/usr/bin/env python3
"""Regenerates baseline/Cxx.json (confirmed-instance summaries) from /repo's current tree. Run only on a tree whose checks all hold;
the result is reviewed and committed. usage: tools/gen_baseline.py [Cxx ...]"""
import json, os, sys
V = os.path.dirname(os.path.dirname(os.path.abspath(__file__)))
sys.path.insert(0, os.path.join(V, "engine", "grinlint"))
import extract
from facts import Facts
import r9
F = Facts(extract.extract()[0])
props = {json.loads(l)["id"]: json.loads(l) for l in open(os.path.join(V, "properties.jsonl"))}
for pid in (sys.argv[1:] or sorted(props)):
    if not os.path.exists(os.path.join(V, "rules", pid + ".py")):
        continue
    b = r9.generate(F, props[pid])
    json.dump(b, open(r9.baseline_path(pid), "w"), indent=1, sort_keys=True)
    print(pid, len(b), "functions", sum(len(x["must"]) for x in b.values()), "must", sum(len(x["order"]) for x in b.values()), "order",
          sum(len(v) for x in b.values() for v in x["args"].values()), "sink calls")
