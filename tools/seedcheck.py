#!/usr/bin/env python3
"""Runs all (or the given) property checks against /repo + one seeded patch, on a scratch copy (never touches /repo).
usage: tools/seedcheck.py <patch.diff> [Cxx ...]"""
import json, os, re, shutil, subprocess, sys, tempfile
V = os.path.dirname(os.path.dirname(os.path.abspath(__file__)))


def main():
    patch = os.path.abspath(sys.argv[1])
    props = sys.argv[2:] or [json.loads(l)["id"] for l in open(os.path.join(V, "properties.jsonl"))]
    props = [p for p in props if os.path.exists(os.path.join(V, "rules", p + ".py"))]
    scratch = tempfile.mkdtemp(prefix="grinseed.")
    try:
        subprocess.check_call(["rsync", "-a", "--exclude", "target", "--exclude", ".git", "/repo/", scratch + "/"])
        r = subprocess.run(["patch", "-p1", "-s", "-i", patch], cwd=scratch, stdout=subprocess.PIPE, stderr=subprocess.STDOUT, text=True)
        if r.returncode != 0:
            print("PATCH DOES NOT APPLY:\n" + r.stdout)
            return 2
        env = dict(os.environ, VERIF_REPO=scratch, VERIF_EVIDENCE=os.path.join(scratch, ".evidence"))
        caught = {}
        for p in props:
            o = subprocess.run([os.path.join(V, "check"), p], env=env, stdout=subprocess.PIPE, stderr=subprocess.STDOUT, text=True)
            if o.returncode == 2:
                print("INCONCLUSIVE build"); print(o.stdout[-2000:]); return 2
            if o.returncode == 1:
                caught[p] = re.findall(r"---- (\S+ \S+) \[(\w+)\] ([^\n]*)", o.stdout)
        for p, v in caught.items():
            for verdict, kind, desc in v[:6]:
                print("%s  %s [%s] %s" % (p, verdict, kind, desc[:150]))
        print("CAUGHT BY: %s" % (sorted(caught) or "nothing"))
        return 0
    finally:
        shutil.rmtree(scratch, ignore_errors=True)


sys.exit(main())
