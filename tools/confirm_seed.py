#!/usr/bin/env python3
"""Confirms a seeded change in a scratch worktree of /repo (outside /repo and /verif):
  1. patch + demonstration apply; the tree compiles;
  2. the demonstration FAILS with the change and PASSES without it;
  3. the existing tests of the listed crates still pass with the change.
usage: tools/confirm_seed.py <seeded dir> <demo crate> <demo test target> <crate> [<crate>...]
Writes <seeded dir>/confirm.json."""
import json, os, subprocess, sys, time
d = os.path.abspath(sys.argv[1]); demo_crate = sys.argv[2]; demo_test = sys.argv[3]; crates = sys.argv[4:]
W = "/tmp/seedconfirm/w"; T = "/tmp/seedconfirm/target"
os.makedirs("/tmp/seedconfirm", exist_ok=True)
env = dict(os.environ, CARGO_TARGET_DIR=T, CARGO_NET_OFFLINE="true")
def sh(cmd, cwd=W, check=False):
    p = subprocess.run(cmd, cwd=cwd, env=env, shell=True, stdout=subprocess.PIPE, stderr=subprocess.STDOUT, text=True)
    if check and p.returncode != 0:
        print(p.stdout[-3000:]); sys.exit("FAILED: " + cmd)
    return p
subprocess.run("git -C /repo worktree remove --force %s 2>/dev/null; rm -rf %s" % (W, W), shell=True)
sh("git -C /repo worktree add -q --detach %s HEAD" % W, cwd="/", check=True)
if not os.path.isdir(T):
    sh("cp -a /repo/target %s" % T, cwd="/", check=True)
res = {"seeded": os.path.basename(d), "repo_head": subprocess.check_output("git -C /repo rev-parse --short HEAD", shell=True, text=True).strip(), "at": time.strftime("%Y-%m-%dT%H:%M:%SZ", time.gmtime())}
sh("git apply %s/demo.diff" % d, check=True)
# without the change
p = sh("cargo test -p %s --offline -j 16 --test %s 2>&1 | tail -15" % (demo_crate, demo_test))
res["demo_without_change"] = "pass" if "test result: ok" in p.stdout and "FAILED" not in p.stdout else "FAIL"
res["demo_without_tail"] = p.stdout[-600:]
sh("git apply %s/patch.diff" % d, check=True)
p = sh("cargo test -p %s --offline -j 16 --test %s 2>&1 | tail -25" % (demo_crate, demo_test))
res["demo_with_change"] = "fail" if ("FAILED" in p.stdout or "panicked" in p.stdout) else "PASS"
res["demo_with_tail"] = p.stdout[-900:]
res["existing_tests"] = {}
for c in crates:
    p = sh("cargo test -p %s --offline -j 16 --no-fail-fast 2>&1 | grep -E '^test result|^test .* FAILED|Running|error' | tail -60" % c)
    failed = [l for l in p.stdout.splitlines() if l.startswith("test ") and "FAILED" in l and demo_test not in l]
    # the demonstration target itself is expected to fail; everything else must pass
    others = []
    cur = None
    for l in p.stdout.splitlines():
        if "Running" in l: cur = l
        if l.startswith("test result: FAILED") and cur and demo_test not in cur: others.append(cur.strip())
    res["existing_tests"][c] = "pass" if not others and "error" not in p.stdout.lower().replace("0 failed", "") or not others else "FAIL %s" % others
    res["existing_tests_detail_" + c] = [l for l in p.stdout.splitlines() if l.startswith("test result")][:40]
res["confirmed"] = res["demo_without_change"] == "pass" and res["demo_with_change"] == "fail" and all(v == "pass" for v in res["existing_tests"].values())
json.dump(res, open(os.path.join(d, "confirm.json"), "w"), indent=1)
print(json.dumps({k: v for k, v in res.items() if not k.startswith("existing_tests_detail") and not k.endswith("_tail")}, indent=1))
subprocess.run("git -C /repo worktree remove --force %s" % W, shell=True)
