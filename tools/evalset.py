#!/usr/bin/env python3
"""Calibration harness: every benign variant must stay silent, every seeded change must be reported.
  tools/evalset.py prepare            extract facts of /repo + each patch (scratch copies), remember the fact dirs
  tools/evalset.py run [-k substr] [--props C01,C02] [-v]    run the checks against the remembered fact sets (parallel)
Static analysis of variant sources only; nothing is executed."""
import concurrent.futures as cf, glob, json, os, re, shutil, subprocess, sys, tempfile
V = os.path.dirname(os.path.dirname(os.path.abspath(__file__)))
MAP = os.path.join(V, ".cache", "evalmap.json")
PROPS = sorted(f[:-3] for f in os.listdir(os.path.join(V, "rules")) if re.match(r"^C\d+\.py$", f))


def patches():
    out = []
    for d in ("benign", "benign2", "benign3", "benign4", "benign5"):
        for p in sorted(glob.glob(os.path.join(V, d, "*.diff"))):
            out.append(("B:" + d + "/" + os.path.basename(p)[:-5], p))
    for p in sorted(glob.glob(os.path.join(V, "seeded", "*", "patch.diff"))):
        out.append(("S:" + os.path.basename(os.path.dirname(p)), p))
    return out


def prepare(sel, jobs=4):
    import threading
    m = json.load(open(MAP)) if os.path.exists(MAP) else {}
    todo = [(name, p) for name, p in patches() if (not sel or sel in name) and not (name in m and os.path.exists(os.path.join(m[name], "OK")))]
    mu = threading.Lock()
    slots = list(range(1, jobs + 1))

    def work(item):
        with mu:
            slot = slots.pop()
        try:
            _prepare_one(item[0], item[1], m, mu, dict(os.environ, VERIF_FACTS_KEEP="400", VERIF_TARGET_SLOT="-s%d" % slot))
        finally:
            with mu:
                slots.append(slot)
    with cf.ThreadPoolExecutor(jobs) as ex:
        list(ex.map(work, todo))


def _prepare_one(name, p, m, mu, env0):
    if True:
        scratch = tempfile.mkdtemp(prefix="grineval.")
        try:
            subprocess.check_call(["rsync", "-a", "--exclude", "target", "--exclude", ".git", "/repo/", scratch + "/"])
            r = subprocess.run(["patch", "-p1", "-s", "-i", p], cwd=scratch, stdout=subprocess.PIPE, stderr=subprocess.STDOUT, text=True)
            if r.returncode != 0:
                print(name, "DOES NOT APPLY"); return
            o = subprocess.run([sys.executable, os.path.join(V, "engine", "grinlint", "extract.py"), "debug"], env=dict(env0, VERIF_REPO=scratch), stdout=subprocess.PIPE, stderr=subprocess.STDOUT, text=True)
            last = o.stdout.strip().splitlines()[-1] if o.stdout.strip() else ""
            if o.returncode != 0 or not last.startswith("/"):
                print(name, "EXTRACTION FAILED", o.stdout[-400:]); return
            with mu:
                m[name] = last.split()[0]
                json.dump(m, open(MAP, "w"), indent=1)
            print(name, m[name], flush=True)
        finally:
            shutil.rmtree(scratch, ignore_errors=True)


def run(sel, props, verbose):
    m = json.load(open(MAP))
    jobs = [(n, p) for n in sorted(m) if (not sel or any(s in n for s in sel.split(","))) for p in props]
    ev = tempfile.mkdtemp(prefix="grinevalev.")
    # run from a snapshot of the engine, rule tables and baseline so that edits made while the (long) run is going do not leak into it
    global V
    snap = tempfile.mkdtemp(prefix="grinevalsnap.")
    for d in ("engine/grinlint", "rules", "baseline", "witness"):
        shutil.copytree(os.path.join(V, d), os.path.join(snap, d), ignore=shutil.ignore_patterns("__pycache__", "target"))
    for f in ("check", "known_findings.json", "properties.jsonl"):
        shutil.copy2(os.path.join(V, f), os.path.join(snap, f))
    os.symlink(os.path.join(V, ".cache"), os.path.join(snap, ".cache"))
    os.makedirs(os.path.join(snap, "engine", "mirfacts"), exist_ok=True)
    os.symlink(os.path.join(V, "engine", "mirfacts", "src"), os.path.join(snap, "engine", "mirfacts", "src"))
    os.symlink(os.path.join(V, "engine", "mirfacts", "target"), os.path.join(snap, "engine", "mirfacts", "target"))
    V0, V = V, snap

    def one(job):
        n, p = job
        env = dict(os.environ, VERIF_FACTS_DIR=m[n], VERIF_EVIDENCE=os.path.join(ev, re.sub(r"\W", "_", n)))
        o = subprocess.run([os.path.join(V, "check"), p], env=env, stdout=subprocess.PIPE, stderr=subprocess.STDOUT, text=True)
        return n, p, o.returncode, o.stdout
    res = {}
    with cf.ThreadPoolExecutor(16) as ex:
        for n, p, rc, out in ex.map(one, jobs):
            if rc != 0:
                res.setdefault(n, {})[p] = ["%s [%s] %s" % x for x in re.findall(r"---- \S+ (\S+) \[(\w+)\] ([^\n]*)", out)] or ["exit %d %s" % (rc, out[-200:])]
            else:
                res.setdefault(n, {})
    shutil.rmtree(ev, ignore_errors=True)
    V = V0
    shutil.rmtree(snap, ignore_errors=True)
    nb = nba = ns = nso = nsa = 0
    for n in sorted(res):
        caught = res[n]
        if n.startswith("B:"):
            nb += 1
            nba += 1 if caught else 0
            print("%-62s %s" % (n, ("ALARM " + ",".join(sorted(caught))) if caught else "silent"))
        else:
            ns += 1
            own = n[2:5]
            nso += 1 if own in caught else 0
            nsa += 1 if caught else 0
            print("%-62s %s" % (n, ("caught by " + ",".join(sorted(caught)) + ("" if own in caught else "   (NOT by %s)" % own)) if caught else "MISSED"))
        if verbose or n.startswith("B:"):
            for p, lines in sorted(caught.items()):
                seen = set()
                for l in lines:
                    if l not in seen and len(seen) < (8 if verbose else 3):
                        seen.add(l)
                        print("        %s  %s" % (p, l[:200]))
    print("benign: %d of %d alarm; seeds: %d of %d reported by their own property, %d by some property" % (nba, nb, nso, ns, nsa))


def main():
    a = sys.argv[1:]
    cmd = a.pop(0) if a else "run"
    sel, props, verbose = None, PROPS, False
    while a:
        x = a.pop(0)
        if x == "-k": sel = a.pop(0)
        elif x == "--props": props = a.pop(0).split(",")
        elif x == "-v": verbose = True
    if cmd == "prepare":
        prepare(sel)
    else:
        run(sel, props, verbose)


main()
