#!/usr/bin/env python3
"""Developer aid: extract the facts of /repo + one patch on a scratch copy and print the fact directory (kept in the cache).
usage: tools/vfacts.py <patch.diff>   then   VERIF_FACTS_DIR=<dir> ./check Cxx   or   VERIF_FACTS_DIR=<dir> tools/show.py <fn>"""
import os, shutil, subprocess, sys, tempfile
V = os.path.dirname(os.path.dirname(os.path.abspath(__file__)))
scratch = tempfile.mkdtemp(prefix="grinvf.")
try:
    subprocess.check_call(["rsync", "-a", "--exclude", "target", "--exclude", ".git", "/repo/", scratch + "/"])
    subprocess.check_call(["patch", "-p1", "-s", "-i", os.path.abspath(sys.argv[1])], cwd=scratch)
    o = subprocess.run([sys.executable, os.path.join(V, "engine", "grinlint", "extract.py"), "debug"],
                       env=dict(os.environ, VERIF_REPO=scratch, VERIF_FACTS_KEEP="400", VERIF_TARGET_SLOT="-s9"), stdout=subprocess.PIPE, text=True)
    print(o.stdout.strip().splitlines()[-1].split()[0] if o.returncode == 0 else o.stdout[-2000:])
finally:
    shutil.rmtree(scratch, ignore_errors=True)
