#!/usr/bin/env python3
"""Writes seeded/<id>/meta.json from the agent's README.md and tools/confirm_seed.py's confirm.json (existing `checks_that_catch_it` is kept).
usage: tools/mkmeta.py <seeded dir>..."""
import json, os, re, sys
for d in sys.argv[1:]:
    d = d.rstrip("/")
    sid = os.path.basename(d)
    readme = open(os.path.join(d, "README.md")).read()
    conf = json.load(open(os.path.join(d, "confirm.json")))
    first = readme.splitlines()[0].lstrip("# ").strip()
    change = re.sub(r"^C\d\d\s+seed(ed change)?\s*(\([^)]*\))?\s*:\s*", "", first)
    m = re.search(r"^#+\s*(What (is|it) need\w*[^\n]*|What it takes[^\n]*|Needs[^\n]*manifest[^\n]*)\n(.*?)(?=^#+\s|\Z)", readme, re.S | re.M | re.I)
    needs = re.sub(r"\s+", " ", m.group(3)).strip()[:700] if m else ""
    if not needs:
        m = re.search(r"(?i)\*\*(what it needs to manifest|what it takes to manifest)[^*]*\*\*:?(.*?)(?=\n\n|\Z)", readme, re.S)
        needs = re.sub(r"\s+", " ", m.group(2)).strip()[:700] if m else "see README.md"
    demo = [l[6:].strip() for l in open(os.path.join(d, "demo.diff")) if l.startswith("+++ b/")]
    mp = os.path.join(d, "meta.json")
    old = json.load(open(mp)) if os.path.exists(mp) else {}
    meta = {
        "id": sid, "breaks_property": sid[:3], "change": change, "needs_to_manifest": needs,
        "origin": "written by an independent sub-agent that saw only the property record and a scratch worktree of /repo (nothing from /verif)",
        "confirmed": {
            "by": "tools/confirm_seed.py in a scratch worktree (/tmp/seedconfirm), /repo at %s, %s" % (conf.get("repo_head"), conf.get("at")),
            "demonstration": "demo.diff adds %s" % ", ".join(demo),
            "demo_without_change": conf["demo_without_change"], "demo_with_change": conf["demo_with_change"],
            "existing_tests_with_change": conf["existing_tests"], "confirmed": conf["confirmed"]},
        "checks_that_catch_it": old.get("checks_that_catch_it", []),
        "how_to_rerun": "python3 tools/seedcheck.py seeded/%s/patch.diff" % sid,
    }
    json.dump(meta, open(mp, "w"), indent=1)
    print(sid, "|", change[:90], "|", needs[:80])
