#!/usr/bin/env python3
"""Runs every property check against /repo + each given patch (scratch copies; /repo is never touched), checks of one patch in parallel.
usage: tools/batchcheck.py [-v] <patch.diff>... ; prints one line per patch: the checks that report it (or `silent`)."""
import concurrent.futures as cf, json, os, re, shutil, subprocess, sys, tempfile
V = os.path.dirname(os.path.dirname(os.path.abspath(__file__)))
PROPS = sorted(f[:-3] for f in os.listdir(os.path.join(V, "rules")) if re.match(r"^C\d+\.py$", f))


def one(patch, verbose):
    scratch = tempfile.mkdtemp(prefix="grinbatch.")
    try:
        subprocess.check_call(["rsync", "-a", "--exclude", "target", "--exclude", ".git", "/repo/", scratch + "/"])
        r = subprocess.run(["patch", "-p1", "-s", "-i", os.path.abspath(patch)], cwd=scratch, stdout=subprocess.PIPE, stderr=subprocess.STDOUT, text=True)
        if r.returncode != 0:
            return "DOES-NOT-APPLY", {}
        env = dict(os.environ, VERIF_REPO=scratch, VERIF_EVIDENCE=os.path.join(scratch, ".evidence"))

        def run(p):
            o = subprocess.run([os.path.join(V, "check"), p], env=env, stdout=subprocess.PIPE, stderr=subprocess.STDOUT, text=True)
            return p, o.returncode, o.stdout
        p0, rc, out = run(PROPS[0])  # forces the (serialised) extraction
        if rc == 2:
            return "DOES-NOT-COMPILE", {"build": [out[-1500:]]}
        res = {p0: (rc, out)}
        with cf.ThreadPoolExecutor(12) as ex:
            for p, rc, out in ex.map(run, PROPS[1:]):
                res[p] = (rc, out)
        caught = {}
        for p, (rc, out) in sorted(res.items()):
            if rc == 1:
                caught[p] = ["%s [%s] %s" % x for x in re.findall(r"---- \S+ (\S+) \[(\w+)\] ([^\n]*)", out)]
            elif rc != 0:
                caught[p] = ["exit %d: %s" % (rc, out[-300:])]
        return ("CAUGHT BY " + ",".join(sorted(caught))) if caught else "silent", caught
    finally:
        shutil.rmtree(scratch, ignore_errors=True)


def main():
    args = sys.argv[1:]
    verbose = False
    if args and args[0] == "-v":
        verbose = True
        args = args[1:]
    summary = {}
    for patch in args:
        verdict, caught = one(patch, verbose)
        print("%-58s %s" % (os.path.basename(os.path.dirname(patch)) + "/" + os.path.basename(patch) if os.path.basename(patch) == "patch.diff" else os.path.basename(patch), verdict), flush=True)
        if verbose or True:
            for p, lines in caught.items():
                for l in lines[:4]:
                    print("      %s  %s" % (p, l[:230]), flush=True)
        summary[patch] = sorted(caught)
    return 0


sys.exit(main())
