#!/usr/bin/env python3
"""Regenerates MANIFEST.json from the rule tables present under rules/ (keeps it valid at all times)."""
import importlib.util, json, os, sys
V = os.path.dirname(os.path.dirname(os.path.abspath(__file__)))
sys.path.insert(0, os.path.join(V, "engine", "grinlint"))
NA = {}
props = [json.loads(l) for l in open(os.path.join(V, "properties.jsonl"))]
checks, na = [], []
for p in props:
    pid = p["id"]
    rp = os.path.join(V, "rules", pid + ".py")
    if pid in NA:
        na.append({"property_id": pid, "reason": NA[pid]})
        continue
    if not os.path.exists(rp):
        na.append({"property_id": pid, "reason": "not claimed yet: rule table planned in DESIGN.md section 3 is not implemented in this revision"})
        continue
    spec = importlib.util.spec_from_file_location("r", rp); m = importlib.util.module_from_spec(spec); spec.loader.exec_module(m)
    checks.append({
        "property_id": pid,
        "quick_cmd": "./check %s --tier quick" % pid,
        "thorough_cmd": "./check %s --tier thorough" % pid,
        "evidence_file": "/verif/evidence/%s.json" % pid,
        "replay_cmd_template": "./check %s --replay {path}" % pid,
        "engine": "grinlint",
        "level_claimed": {
            "category": "other",
            "text": "Static analysis, all paths of the control-flow graph and all call sites in the build: " + m.CLAUSE +
                    " These are necessary structural conditions of the property, decided exhaustively over rustc MIR of the current tree; NOT decided: " + m.NOT_DECIDED,
            "design_ref": "DESIGN.md section 3, " + pid,
        },
        "level_note": "Trusted base: rustc MIR (mir-opt-level=0) faithfully abstracts the source; no unsafe aliasing of the protected state; closures passed to the "
                      "txhashset wrappers run within their call site; external crates (heed/LMDB, parking_lot, croaring, secp256k1zkp) behave as documented. "
                      "A pass means the structural clause holds on every CFG path, not that the behavioural property is proven.",
        "technique": getattr(m, "TECHNIQUE", "static analysis: repository-specific dataflow / must-pass-through / who-may-call rules over rustc MIR (custom rustc_private driver)"),
    })
man = {
    "version": 1,
    "setup_cmd": "cd /verif/engine/mirfacts && CARGO_NET_OFFLINE=true cargo +nightly build --release --offline && cd /verif && python3 engine/grinlint/extract.py debug && cd /verif/witness && cp /repo/Cargo.lock . && CARGO_NET_OFFLINE=true CARGO_TARGET_DIR=/verif/.cache/target-witness cargo +nightly check --offline --example w5_chain_send_sync_good",
    "hooks": {
        "guard": "mimblewimble_grin_verif",
        "enable": "none needed: the checks are static (cargo +nightly check with a rustc_private fact-extracting wrapper); no hook code exists in /repo",
        "baseline_off_cmd": "cd /repo && cargo test --workspace --no-fail-fast --offline",
        "source_commits": [],
        "add_only": True,
    },
    "engines": [
        {"name": "mirfacts", "path": "engine/mirfacts", "serves_properties": [c["property_id"] for c in checks],
         "kind_free_text": "rustc_private driver (RUSTC_WORKSPACE_WRAPPER under cargo +nightly check): dumps per-function MIR facts, resolved callees, instantiated call graph"},
        {"name": "grinlint", "path": "engine/grinlint", "serves_properties": [c["property_id"] for c in checks],
         "kind_free_text": "Python rule engine over the MIR facts: R1 must-pass-through graph cuts, R2 guard/argument-origin, R3 who-may-call/write, R4 no-reach, R5 lock discipline, R6 result discipline, R7 table agreement"},
    ],
    "checks": checks,
    "not_applicable": na,
    "notes": "Technique family: static analysis only. Every check rebuilds facts from /repo's current working tree (cached by source-tree hash). See DESIGN.md.",
}
fixes = os.path.join(V, "fix_commits.txt")
if os.path.exists(fixes):
    # repairs of genuine defects are unguarded "fix:" commits in /repo (not hooks); they are listed here for reference only
    man["notes"] += " Unguarded fix: commits in /repo (see known_findings.json, 'fixed'): " + "; ".join(l.strip() for l in open(fixes) if l.strip()) + "."
json.dump(man, open(os.path.join(V, "MANIFEST.json"), "w"), indent=1)
print("checks:", [c["property_id"] for c in checks], "n/a:", [n["property_id"] for n in na])
