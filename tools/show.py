#!/usr/bin/env python3
"""Developer aid: print the analysed view of a function (calls with success-edge kind, guards)."""
import glob, os, re, sys
sys.path.insert(0, os.path.join(os.path.dirname(os.path.abspath(__file__)), "..", "engine", "grinlint"))
from facts import *
from cfg import *
import extract

def main():
    d = os.environ.get("VERIF_FACTS_DIR") or extract.extract()[0]
    F = Facts(d)
    mode = "all"
    args = sys.argv[1:]
    if args and args[0] in ("-c", "-g", "-m", "-f"):
        mode = args.pop(0)
    for pat in args:
        for k in F.find(pat):
            fn = F.fns[k]
            if mode == "-f":
                print(k); continue
            print("==", k, fn_loc(fn), "blocks", len(fn["blocks"]), "ret", fn["locals"][0]["s"][:80])
            if mode in ("all", "-c"):
                for bi, t in F.calls(k):
                    names = callee_names(t)
                    if any(re.search(r"try_trait|fmt::|log::|core::cmp::PartialOrd::le$|Deref", n) for n in names) and mode != "-m": continue
                    e, kind = success_edges(fn, bi)
                    print("  bb%-4d %-28s %-12s %s %s" % (bi, loc(t).split("/")[-1], kind, short(names[0], 3), ("+" + ",".join(short(c,2) for c in t["ncallables"])) if t["ncallables"] else ""))
            if mode in ("all", "-g"):
                for bi, e, arms, els in switch_conditions(fn):
                    r = render(e)
                    if "Try::branch" in r or "max_level" in r or "STATIC_MAX" in r: continue
                    tg = {v: err_variant_reached(fn, b) for v, b in arms + [("else", els)]}
                    print("  sw%-4d %-24s %s  -> %s" % (bi, loc(fn["blocks"][bi]["term"]).split("/")[-1], r[:260], {a: b for a, b in tg.items() if b}))
            if mode == "-m":
                for bi, b in enumerate(fn["blocks"]):
                    print("  bb%d%s" % (bi, " (cleanup)" if b["cleanup"] else ""))
                    for st in b["st"]: print("      ", st)
                    print("      T", {k: v for k, v in b["term"].items() if k not in ("span", "gargs")})
main()
