#!/usr/bin/env python3
"""Developer aid: compare the C11/C20/C04 allow tables with the groups actually found."""
import sys,collections,importlib.util,os
sys.path.insert(0,'/verif/engine/grinlint')
import extract; from facts import *; from rules import *; import r4
F=Facts(extract.extract()[0])
spec=importlib.util.spec_from_file_location('c11','/verif/rules/C11.py'); m=importlib.util.module_from_spec(spec); spec.loader.exec_module(m)
ctx=Ctx(F,'C11')
groups=collections.defaultdict(list)
for crate,roots in (('grin_p2p',m.P2P_ROOTS),('grin_core',m.CORE_ROOTS),('grin_chain',m.CHAIN_ROOTS)):
    found,nr,ns,rn=r4.sites(F,crate,roots,m.FORBID)
    print(crate,nr,ns,len(found))
    g2=collections.defaultdict(list)
    for k,s in found.items():
        if r4.auto_discharge(ctx,s): continue
        g2[s['fn']+'|'+s['what']].append(s['loc'])
    for g,l in g2.items():
        if len(l)>len(groups[g]): groups[g]=l
for g,l in sorted(groups.items()):
    al=m.ALLOW.get(g)
    if al is None: print('MISSING',g,len(l),sorted(x.split('/')[-1] for x in l))
    elif al[0]!=len(l): print('COUNT',g,len(l),'allowed',al[0])
print('stale',sorted(set(m.ALLOW)-set(groups)))
